#!/bin/bash
# usage: confirm_fulltests.sh <seeded id>...   Runs the 5,084-test baseline on a scratch copy of /repo with the seeded patch
# applied (demo both ways first) and prints the comparison with BASELINE's stable_pass list. Scratch copy is removed.
for id in "$@"; do
  SRC=/verif/seeded/$id
  S=$(mktemp -d /dev/shm/ft-XXXXXX)
  rsync -a --exclude .git --exclude __pycache__ /repo/ "$S/repo/"
  cd "$S/repo"
  PYTHONPATH=$S/repo timeout 900 /venv/bin/python "$SRC/demo.py" > "$S/d0.log" 2>&1; d0=$?
  patch -p1 -s < "$SRC/patch.diff" || { echo "$id PATCH-FAILED"; rm -rf "$S"; continue; }
  PYTHONPATH=$S/repo timeout 900 /venv/bin/python "$SRC/demo.py" > "$S/d1.log" 2>&1; d1=$?
  PYTHONPATH=$S/repo timeout 3000 /venv/bin/python -m pytest -q -p no:cacheprovider --timeout=900 --continue-on-collection-errors -n 8 --junitxml="$S/junit.xml" > "$S/tests.log" 2>&1
  echo "$id demo_unpatched=$d0 demo_patched=$d1 $(python3 /verif/tools/compare_baseline.py "$S/junit.xml" | tail -1)"
  cd /; rm -rf "$S"
done
