#!/usr/bin/env python3
"""Reach probe for the C14 workload: which lines of the shipped rewrite rules (check()/rewrite() bodies), the constant
folder and the version converter does the *generated + harvested model pool* execute when optimized / rewritten /
converted? Lines never reached are branches the families do not cover. Development aid; not part of a check."""
import sys, os, logging, collections
sys.path.insert(0, "/verif")
repo = os.environ.get("VERIF_REPO", "/repo")
sys.path.insert(0, repo)
logging.disable(logging.CRITICAL)
import coverage
cov = coverage.Coverage(include=[repo + "/onnxscript/rewriter/rules/*", repo + "/onnxscript/rewriter/ort_fusions/gelu.py",
                                 repo + "/onnxscript/rewriter/ort_fusions/erfgelu.py", repo + "/onnxscript/rewriter/ort_fusions/bias_gelu.py",
                                 repo + "/onnxscript/optimizer/_constant_folding.py", repo + "/onnxscript/version_converter/_version_converter.py"],
                        data_file=None)
cov.start()
import onnx_ir as ir
from onnxscript import optimizer, rewriter, version_converter
from onnxscript.rewriter import pattern
from onnxscript.rewriter.rules.fusion import _rms_normalization, _layer_norm
from onnxscript.rewriter.ort_fusions import gelu, erfgelu, bias_gelu
from dsim.prng import Rng
from dsim.c14 import genmodels
from dsim.c14.pools import Pools
n_per = int(sys.argv[1]) if len(sys.argv) > 1 else 12
texts = []
rng = Rng(int(os.environ.get("VERIF_SEED", "1")))
for fam in sorted(genmodels.FAMILIES):
    for i in range(n_per):
        texts.append(genmodels.gen_model(rng.sub(fam, i), fam)[1])
texts += [t for _, t in Pools(repo).texts]
from onnxscript.rewriter.rules import common as _rc


def _group(names):
    rules = []
    for n in names:
        r = getattr(_rc, n)
        if callable(r) and not isinstance(r, pattern.RewriteRule):
            r = r()
        rules.extend(r.rules if isinstance(r, pattern.RewriteRuleSet) else list(r) if isinstance(r, (list, tuple)) else [r])
    return pattern.RewriteRuleSet(rules)


extra = [_group(["fuse_hardswish_rules"]), _group(["conv_affine_fusion_rule", "affine_conv_fusion_rule"]),
         _group(["expand_before_binary_op_rules"]), _group(["two_reshapes_matmul_reshape_rule", "one_reshape_matmul_reshape_rule"]),
         _group(["no_op_static_scatter_nd_rule", "no_op_dynamic_scatter_nd_rule"]),
         _group(["matmul_add_to_gemm_rule", "transpose_a_matmul_add_to_gemm_rule", "transpose_b_matmul_add_to_gemm_rule",
                 "transpose_ab_matmul_add_to_gemm_rule", "gemm_to_matmul_add_rule"]),
         _rms_normalization.rms_normalization_ruleset, _layer_norm.layer_normalization_ruleset,
         pattern.RewriteRuleSet([*gelu.gelu_rules.rules, *erfgelu.rules.rules, *bias_gelu.bias_gelu_rules.rules])]
stat = collections.Counter()
for t in texts:
    for fn in (lambda m: rewriter.rewrite(m), lambda m: optimizer.optimize(m), lambda m: version_converter.convert_version(m, 23),
               *[(lambda m, rs=rs: rs.apply_to_model(m)) for rs in extra]):
        try:
            fn(ir.from_onnx_text(t)); stat["ok"] += 1
        except Exception as e:  # noqa: BLE001
            stat[type(e).__name__] += 1
cov.stop()
print("runs:", dict(stat))
for f in sorted(cov.get_data().measured_files()):
    _, stmts, _, missing, _ = cov.analysis2(f)
    if "_test" in f:
        continue
    pct = 100 * (len(stmts) - len(missing)) / max(1, len(stmts))
    print(f"{pct:5.1f}%  {os.path.relpath(f, repo)}  missing: {coverage.misc.format_lines(stmts, missing) if hasattr(coverage, 'misc') and hasattr(coverage.misc,'format_lines') else missing[:40]}")
