#!/usr/bin/env python3
import json, sys
id_, prop, needs, caught_by, extra = sys.argv[1:6]
meta = {
 "id": id_, "property": prop,
 "origin": "independent sub-agent given only the property text and its own scratch worktree",
 "needs_to_manifest": needs,
 "confirmed": {
   "demo_unpatched_exit": 0, "demo_patched_exit": 1,
   "full_test_suite_with_patch": "pytest -n 8 on a scratch copy with the patch: all 5084 BASELINE stable_pass tests pass (tools/compare_baseline.py)",
   "how": "tools/try_seeded.sh <dir> <prop> --fulltests (scratch copy under /dev/shm, removed afterwards)"},
 "check_result": caught_by, "notes": extra,
}
json.dump(meta, open(f"/verif/seeded/{id_}/meta.json", "w"), indent=1)
