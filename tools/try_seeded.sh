#!/bin/bash
# usage: try_seeded.sh <dir with patch.diff + demo.py> <C14|C20> [--fulltests]
# Confirms a seeded change in a scratch copy of /repo (outside /repo and /verif), then runs the quick check against it.
set -u
SRC=$1; PROP=$2; FULL=${3:-}
S=$(mktemp -d /dev/shm/seeded-XXXXXX)
trap 'rm -rf "$S"' EXIT
rsync -a --exclude .git --exclude __pycache__ /repo/ "$S/repo/"
cd "$S/repo"
echo "== demo on unpatched copy"; PYTHONPATH=$S/repo timeout 900 /venv/bin/python "$SRC/demo.py" > "$S/demo0.log" 2>&1; echo "exit=$? (want 0)"; tail -3 "$S/demo0.log"
patch -p1 -s < "$SRC/patch.diff" || { echo PATCH-FAILED; exit 3; }
echo "== demo on patched copy"; PYTHONPATH=$S/repo timeout 900 /venv/bin/python "$SRC/demo.py" > "$S/demo1.log" 2>&1; echo "exit=$? (want 1)"; tail -5 "$S/demo1.log"
if [ "$FULL" = "--fulltests" ]; then
  echo "== full test-suite on patched copy"
  PYTHONPATH=$S/repo timeout 3000 /venv/bin/python -m pytest -q -p no:cacheprovider --timeout=900 --continue-on-collection-errors -n 8 --junitxml="$S/junit.xml" > "$S/tests.log" 2>&1
  tail -1 "$S/tests.log" | cut -c1-300
  python3 /verif/tools/compare_baseline.py "$S/junit.xml"
fi
echo "== quick check against patched copy"
cd /verif
VERIF_EVIDENCE_DIR=$S/evidence VERIF_REPLAY_DIR=$S/replays VERIF_REPO=$S/repo PYTHONPATH=$S/repo timeout 3000 /venv/bin/python -m dsim check $PROP --tier quick > "$S/check.log" 2>&1; echo "check exit=$?"
grep -E "^(VIOLATION|  violation|HARNESS-ERROR|C14 |C20 )" "$S/check.log" | cut -c1-600
