#!/usr/bin/env python3
"""mutants/RESULTS.json from seeded/SWEEP.txt (the sweep runs the same quick checks as `selftest mutants`, under two seeds)."""
import json, os, re
rows = []
for line in open("/verif/seeded/SWEEP.txt"):
    m = re.match(r"mutants/(\S+) (C\d+): (.*)", line)
    if not m:
        continue
    name, prop, rest = m.groups()
    counts = {k: int(v) for k, v in re.findall(r"(seed\d+)=(\d+)", rest)}
    desc = open(f"/verif/mutants/{name}.txt").read().strip() if os.path.exists(f"/verif/mutants/{name}.txt") else ""
    expect_violation = "expect=CLEAN" not in desc
    caught = [v > 0 for v in counts.values()]
    verdict = ("ok" if all(caught) else "ok-under-some-seeds" if any(caught) else "MISSED") if expect_violation else ("ok" if not any(caught) else "FALSE-ALARM")
    rows.append({"mutant": name, "property": prop, "expected": "VIOLATION" if expect_violation else "CLEAN",
                 "violations_per_seed": counts, "verdict": verdict})
json.dump(rows, open("/verif/mutants/RESULTS.json", "w"), indent=1)
print(len(rows), "mutants;", sum(r["verdict"] == "ok" for r in rows), "ok")
