#!/bin/bash
# usage: sensitivity_sweep.sh "<seeds>" <out file> [patch files...]   (default: all seeded + all mutants)
# For each patch: scratch copy of /repo + patch, quick check per seed, count VIOLATION lines. Clean control first.
SEEDS=${1:-"20260924 1 2"}; OUT=${2:-/verif/seeded/SWEEP.txt}; shift 2
PATCHES="$@"
[ -z "$PATCHES" ] && PATCHES="$(ls /verif/seeded/*/patch.diff /verif/mutants/*.patch)"
S=$(mktemp -d /dev/shm/sweep-XXXXXX); trap 'rm -rf "$S"' EXIT
echo "# quick-check VIOLATION counts per seed ($SEEDS); 'clean' = unpatched /repo; generated $(date -u +%FT%TZ) at verif $(git -C /verif rev-parse --short HEAD)" > "$OUT"
run() { # name prop repo
  local line="$1 $2:"
  for seed in $SEEDS; do
    n=$(cd ${VERIF_DIR:-/verif} && VERIF_SEED=$seed VERIF_EVIDENCE_DIR=$S/ev VERIF_REPLAY_DIR=$S/replays VERIF_REPO=$3 PYTHONPATH=$3 timeout 3000 /venv/bin/python -m dsim check $2 --tier quick 2>&1 | grep -cE "^VIOLATION")
    line="$line seed$seed=$n"
  done
  echo "$line" | tee -a "$OUT"
}
run clean C14 /repo; run clean C20 /repo
for p in $PATCHES; do
  name=$(echo $p | sed 's#/verif/##; s#/patch.diff##; s#.patch##')
  case "$name" in *c14*|*C14*) prop=C14;; *) prop=C20;; esac
  rm -rf $S/repo; rsync -a --exclude .git --exclude __pycache__ /repo/ $S/repo/
  (cd $S/repo && patch -p1 -s < $p) || { echo "$name PATCH-FAILED" | tee -a "$OUT"; continue; }
  run $name $prop $S/repo
done
