#!/usr/bin/env python3
"""Compare a junit xml from the baseline pytest command against BASELINE.json's stable_pass list."""
import json, sys, xml.etree.ElementTree as ET
b = json.load(open('/root/.vp/BASELINE.json'))
stable = set(b['stable_pass'])
passed, failed = set(), set()
for tc in ET.parse(sys.argv[1]).getroot().iter('testcase'):
    tid = (tc.get('classname') or '') + '::' + (tc.get('name') or '')
    if tc.find('failure') is not None or tc.find('error') is not None:
        failed.add(tid)
    elif tc.find('skipped') is None:
        passed.add(tid)
passed -= failed
bad = sorted(s for s in stable if s not in passed)
print(f"stable={len(stable)} passed_now={len(passed)} stable_not_passing={len(bad)}")
for s in bad[:30]:
    print("  ", s)
sys.exit(1 if bad else 0)
