"""CLI: python -m dsim {setup | check <id> --tier quick|thorough | replay <path> | selftest ...}"""
from __future__ import annotations

import argparse
import json
import os
import sys
import traceback

# onnxscript's reference-evaluator paths call into numpy/BLAS; pin dependency thread pools
for _k in ("OPENBLAS_NUM_THREADS", "OMP_NUM_THREADS", "MKL_NUM_THREADS"):
    os.environ.setdefault(_k, "1")

from dsim import common  # noqa: E402

# VERIF_REPO=<dir> points every engine at another checkout (used by the mutant self-test on scratch copies);
# default is /repo's working tree through the editable install
_repo = os.environ.get("VERIF_REPO")
if _repo and os.path.isdir(os.path.join(_repo, "onnxscript")):
    sys.path.insert(0, _repo)


def main(argv=None) -> int:
    ap = argparse.ArgumentParser(prog="dsim")
    sub = ap.add_subparsers(dest="cmd", required=True)
    sub.add_parser("setup")
    c = sub.add_parser("check")
    c.add_argument("prop")
    c.add_argument("--tier", default=os.environ.get("VERIF_TIER") or "quick", choices=["quick", "thorough"])
    c.add_argument("--cases", type=int, default=None)
    r = sub.add_parser("replay")
    r.add_argument("path")
    s = sub.add_parser("selftest")
    s.add_argument("what", choices=["determinism", "mutants"])
    s.add_argument("--prop", default=None)
    a = ap.parse_args(argv)
    seed = common.seed_from_env()
    try:
        if a.cmd == "setup":
            import onnx_ir, onnxscript, numpy, onnx  # noqa: F401,E401
            print("dsim setup ok: onnxscript from", os.path.dirname(onnxscript.__file__))
            os.makedirs(common.EVIDENCE_DIR, exist_ok=True)
            os.makedirs(common.REPLAY_DIR, exist_ok=True)
            return 0
        if a.cmd == "check":
            print(f"VERIF_SEED={seed} tier={a.tier} property={a.prop}", flush=True)
            if a.prop == "C20":
                from dsim.c20 import driver
                return driver.check(a.tier, seed, a.cases)
            if a.prop == "C14":
                from dsim.c14 import driver
                return driver.check(a.tier, seed, a.cases)
            print("unknown property", a.prop)
            return common.EXIT_HARNESS
        if a.cmd == "replay":
            doc = json.load(open(a.path))
            if doc["property"] == "C20":
                from dsim.c20 import driver
                return driver.replay(a.path)
            from dsim.c14 import driver
            return driver.replay(a.path)
        if a.cmd == "selftest":
            from dsim import selftest
            return selftest.run(a.what, a.prop, seed)
    except Exception:  # noqa: BLE001
        traceback.print_exc()
        print("HARNESS-ERROR: dsim crashed", flush=True)
        return common.EXIT_HARNESS
    return common.EXIT_HARNESS


if __name__ == "__main__":
    sys.exit(main())
