"""Seeded PRNG for the simulator.

splitmix64, written out here so that the sequence drawn from a given seed is a
stable contract of the kit (``random``'s choice/shuffle algorithms are not).
Named sub-streams are derived from (seed, name) so that adding a draw in one
stream never shifts another.
"""
from __future__ import annotations

import hashlib

_M = (1 << 64) - 1


def hash64(*parts) -> int:
    h = hashlib.blake2b(digest_size=8)
    for p in parts:
        h.update(repr(p).encode())
        h.update(b"\0")
    return int.from_bytes(h.digest(), "little")


class Rng:
    __slots__ = ("s", "draws")

    def __init__(self, seed: int):
        self.s = seed & _M
        self.draws = 0

    def sub(self, *name) -> "Rng":
        return Rng(hash64(self.s, *name))

    def u64(self) -> int:
        self.draws += 1
        self.s = (self.s + 0x9E3779B97F4A7C15) & _M
        z = self.s
        z = ((z ^ (z >> 30)) * 0xBF58476D1CE4E5B9) & _M
        z = ((z ^ (z >> 27)) * 0x94D049BB133111EB) & _M
        return z ^ (z >> 31)

    def below(self, n: int) -> int:
        """Uniform integer in [0, n)."""
        if n <= 0:
            raise ValueError("below(n) needs n > 0")
        # rejection sampling: unbiased and stable
        lim = (1 << 64) - ((1 << 64) % n)
        while True:
            v = self.u64()
            if v < lim:
                return v % n

    def randint(self, lo: int, hi: int) -> int:
        """Uniform integer in [lo, hi]."""
        return lo + self.below(hi - lo + 1)

    def chance(self, p: float) -> bool:
        return self.u64() < int(p * (1 << 64))

    def choice(self, seq):
        return seq[self.below(len(seq))]

    def weighted(self, pairs):
        """pairs: sequence of (item, integer weight)."""
        tot = sum(w for _, w in pairs)
        r = self.below(tot)
        for item, w in pairs:
            if r < w:
                return item
            r -= w
        raise AssertionError

    def shuffle(self, lst: list) -> None:
        for i in range(len(lst) - 1, 0, -1):
            j = self.below(i + 1)
            lst[i], lst[j] = lst[j], lst[i]

    def sample(self, seq, k: int) -> list:
        idx = list(range(len(seq)))
        self.shuffle(idx)
        return [seq[i] for i in sorted(idx[:k])]

    def bytes(self, n: int) -> bytes:
        out = bytearray()
        while len(out) < n:
            out += self.u64().to_bytes(8, "little")
        return bytes(out[:n])
