"""Seeded generator of onnxscript programs for C14.

Biased to what the audit flagged: several variables live across an if/else,
several loop-carried variables (for / while / for-with-break), nesting, names of
varied length (string hashes), outer-scope captures, module-level constants,
sub-function calls, different opset versions.  Output is literal source text, so
a run spec / replay file is self-contained.
"""
from __future__ import annotations

from dsim.prng import Rng

NAME_STEMS = ["a", "b", "acc", "total", "x1", "state", "h", "hidden", "tmp", "value_long_name", "k", "v", "q",
              "carry", "s0", "s1", "left", "right", "m", "n2", "zz", "prev", "cur", "delta", "w"]
BINOPS = ["op.Add({0}, {1})", "op.Mul({0}, {1})", "op.Sub({0}, {1})", "{0} + {1}", "{0} * {1}", "op.Max({0}, {1})"]
UNOPS = ["op.Neg({0})", "op.Abs({0})", "op.Relu({0})", "op.Identity({0})", "{0} * K0", "op.Add({0}, KARR)", "{0} + 1.0",
         # literals that compare (and hash) equal to other literals but are other values bit for bit, or other types
         "{0} + 0.0", "{0} * -0.0", "op.Add({0}, -0.0)", "{0} * 1", "op.Sub({0}, 0.0)", "{0} + K0"]


# operators introduced after opset 15, with the version that introduced them
OPLIKE = [("Gelu", 20), ("Mish", 18), ("LayerNormalization", 17), ("RMSNormalization", 23), ("BitwiseAnd", 18),
          ("Gelu", 20), ("GroupNormalization", 18), ("Attention", 23)]


def _names(rng: Rng, n: int) -> list[str]:
    pool = list(NAME_STEMS)
    rng.shuffle(pool)
    out = pool[:n]
    while len(out) < n:
        out.append(f"var_{len(out)}")
    return out


def _expr(rng: Rng, avail: list[str]) -> str:
    if len(avail) >= 2 and rng.chance(0.6):
        a, b = rng.choice(avail), rng.choice(avail)
        return rng.choice(BINOPS).format(a, b)
    return rng.choice(UNOPS).format(rng.choice(avail))


def gen_script(rng: Rng, tag: str, consts: Rng | None = None, const_exprs: bool | None = None) -> dict:
    """Returns {'src': ..., 'fns': [...], 'tag': ...}. The values of the module-level constants come from their own stream
    (`consts`), so that two calls with the same `rng` and different `consts` give *twins*: the same text, line for line,
    except for the constants' values — an edited module that is run again."""
    crng = consts if consts is not None else rng.sub("module-consts")
    # function names are unique per module only: a third of the scripts use the same few names as every other such script
    # (model_fn / helper / leaf_x ...), so that anything keyed by a function's name or qualified name across translations shows
    if rng.sub("common-names").chance(0.33):
        tag = "common"
    ver = rng.choice([15, 16, 17, 18, 19, 20, 21, 22, 23])
    nvars = rng.weighted([(1, 2), (2, 4), (3, 4), (4, 3), (5, 4), (6, 4), (7, 2), (8, 2), (9, 2)])
    vs = _names(rng, nvars)
    lines = [
        "from onnx import TensorProto",
        "from onnx.helper import make_tensor",
        "import numpy as np",
        "from onnxscript import script, graph",
        f"from onnxscript.onnx_opset import opset{ver} as op",
        "from onnxscript.onnx_types import FLOAT, BOOL, INT64",
        "",
        f"K0 = {crng.choice(['2.5', '0.5', '3.0', '-1.25', '0.0', '-0.0', '0.0', '-0.0', '1', '1.0'])}",
        f"KARR = np.array([{crng.choice(['1.0', '0.25', '4.0'])}], dtype=np.float32)",
        f"NITER = {crng.randint(1, 4)}",
        f"TCONST = make_tensor('tc', TensorProto.FLOAT, [2], [{crng.choice(['1.0, 2.0', '0.5, -0.5'])}])",
        f"FLOATS = [{crng.choice(['1.0, 3.0', '2.0, 5.0', '0.0, 1.0', '-0.0, 1.0', '0.0, -0.0', '-0.0, 0.0'])}]",
        f"WIDTH = {crng.choice([2, 3, 4, 6])}",
        "",
    ]
    use_module_consts = rng.chance(0.35)
    # constants used inside *expressions* evaluated at script time (attribute values, annotations, a closure of a factory)
    use_const_exprs = rng.chance(0.3) if const_exprs is None else const_exprs
    if use_const_exprs:
        lines += [
            f"def make_scaled_{tag}(gain, width):",
            "    @script()",
            f"    def scaled_{tag}(p: FLOAT['N']) -> FLOAT['N']:",
            "        c = op.Constant(value_float=gain * 1.0)",
            "        s = op.Constant(value_ints=[-1, width])",
            "        return op.Reshape(op.Reshape(op.Mul(p, c), s), op.Constant(value_ints=[-1]))",
            f"    return scaled_{tag}",
            f"scaled_a_{tag} = make_scaled_{tag}(K0, 1)",
            f"scaled_b_{tag} = make_scaled_{tag}({rng.choice(['4.0', '0.125'])}, 1)",
            "",
        ]
    # a helper function named like an ONNX operator that the script's own opset version does not have yet (users do name
    # helpers "Gelu" or "LayerNormalization"): name look-ups shared between the front end and the model passes
    oplike = None
    if rng.chance(0.15):
        oplike, intro = rng.choice(OPLIKE)
        ver = rng.randint(15, min(23, intro - 1))
        lines[4] = f"from onnxscript.onnx_opset import opset{ver} as op"
        oplike_style = rng.choice(["own_domain", "polyfill", "polyfill", "premature_use"])
        if oplike_style != "premature_use":
            # "polyfill": the helper is declared as a member of the standard opset object itself (@script(op))
            lines += ["@script(op)" if oplike_style == "polyfill" else "@script()",
                      f"def {oplike}(p: FLOAT['N'], q: FLOAT['N']) -> FLOAT['N']:",
                      f"    return {rng.choice([b for b in BINOPS if b.startswith('op.')]).format('p', 'q')}", ""]
    use_helper = rng.chance(0.5)
    if use_helper:
        # helpers live in a small set of custom domains at different versions: Opset objects are
        # process-wide singletons per (class, domain, version), shared by every script in the process
        if rng.chance(0.6):
            dom, ver_c = "dsim.custom", rng.randint(1, 3)
            lines += ["from onnxscript.values import Opset", f"CUSTOM = Opset({dom!r}, {ver_c})", ""]
            hdec = "@script(CUSTOM)"
        else:
            hdec = "@script()"
        lines += [
            hdec,
            f"def helper_{tag}(p: FLOAT['N'], q: FLOAT['N']) -> FLOAT['N']:",
            f"    return {rng.choice([b for b in BINOPS if b.startswith('op.')]).format('p', 'q')}",
            "",
        ]
    # helpers in further custom opset domains; they are called from inside control-flow blocks, so a block can be the
    # first place of a function where several opset domains are used
    block_helpers: list[str] = []
    for dom in ("dsim.other", "dsim.third", "dsim.fourth"):
        if rng.chance(0.3):
            short = dom.split(".")[1]
            lines += [f"{short.upper()}_OPSET = Opset({dom!r}, 1)" if "from onnxscript.values import Opset" in "\n".join(lines)
                      else f"from onnxscript.values import Opset\n{short.upper()}_OPSET = Opset({dom!r}, 1)",
                      f"@script({short.upper()}_OPSET)",
                      f"def blk_{short}_{tag}(p: FLOAT['N'], q: FLOAT['N']) -> FLOAT['N']:",
                      f"    return {rng.choice([b for b in BINOPS if b.startswith('op.')]).format('p', 'q')}",
                      ""]
            block_helpers.append(f"blk_{short}_{tag}")
    # a deeper call graph: f -> mid_i -> leaf_i (several branches), so that the set of transitively called
    # functions has to be collected and ordered when the model proto is built
    mids: list[str] = []
    if rng.chance(0.35):
        nb = rng.randint(2, 4)
        stems = _names(rng, nb)
        for i in range(nb):
            leaf, mid = f"leaf_{stems[i]}_{tag}", f"mid_{stems[i]}_{tag}"
            lines += [
                "@script()",
                f"def {leaf}(p: FLOAT['N']) -> FLOAT['N']:",
                f"    return {rng.choice(['op.Neg(p)', 'op.Abs(p)', 'op.Relu(p)', 'op.Exp(p)', 'op.Tanh(p)'])}",
                "",
                "@script()",
                f"def {mid}(p: FLOAT['N'], q: FLOAT['N']) -> FLOAT['N']:",
                f"    return {rng.choice([b for b in BINOPS if b.startswith('op.')]).format(leaf + '(p)', 'q')}",
                "",
            ]
            mids.append(mid)
    # a helper with an int attribute with a default and a float attribute WITHOUT default, and a docstring
    int_helper = None
    if rng.chance(0.25):
        int_helper = f"iattr_{tag}"
        lines += ["@script()", f"def iattr_{tag}(p: FLOAT['N'], gain: float, axis: int = {rng.choice([0, -1])}) -> FLOAT['N']:",
                  f'    """{rng.choice(["Softmax with gain.", "Helper: scaled softmax along axis."])}"""',
                  "    return op.Mul(op.Softmax(p, axis=axis), gain)", ""]
    # a helper with several attribute parameters (attribute order / defaults reach the FunctionProto)
    attr_helper = None
    if rng.chance(0.3):
        anames = rng.sample(["alpha", "gamma", "beta", "scale_f", "eps", "bias_f", "k_attr"], rng.randint(2, 4))
        attr_helper = (f"attrs_{tag}", anames)
        sig = ", ".join(f"{a}: float = {rng.choice(['0.5', '1.5', '2.0', '0.125'])}" for a in anames)
        expr = "p"
        for a in anames:
            expr = f"op.Add(op.Mul({expr}, {a}), {a})" if rng.chance(0.5) else f"op.Mul({expr}, {a})"
        lines += ["@script()", f"def attrs_{tag}(p: FLOAT['N'], {sig}) -> FLOAT['N']:", f"    return {expr}", ""]
    # a wrapper around operators of a custom domain only (no standard-domain operator anywhere in it): which standard opset
    # its model imports is decided by arguments and defaults alone
    wrapper = None
    if rng.chance(0.25):
        wrapper = f"wrap_{tag}"
        lines += ["from onnxscript.values import Opset as _Opset", f"EXT_{tag} = _Opset('com.example', {rng.choice([1, 2])})", "@script()",
                  f"def {wrapper}(p, q):",
                  f"    t = EXT_{tag}.FusedThing(p, q, alpha={rng.choice(['0.5', '2.0'])})",
                  f"    return EXT_{tag}.Post(t{rng.choice(['', ', q'])})", ""]
    dec = "@DEC" if rng.chance(0.3) else "@script()"
    fname = f"f_{tag}"
    body: list[str] = []
    ind = "    "
    for i, v in enumerate(vs):
        body.append(f"{ind}{v} = {_expr(rng, ['x', 'y'] + vs[:i])}")
    if use_helper:
        body.append(f"{ind}{vs[0]} = helper_{tag}({vs[0]}, x)")
    if oplike and oplike_style == "premature_use":
        body.append(f"{ind}{vs[-1]} = op.{oplike}({vs[-1]})")   # an operator this opset version does not have: refused
    elif oplike:
        body.append(f"{ind}{vs[-1]} = {oplike}({vs[-1]}, y)")
    for j, mid in enumerate(mids):
        tgt = vs[j % len(vs)]
        body.append(f"{ind}{tgt} = {mid}({tgt}, {rng.choice(['x', 'y'])})")
    if int_helper is not None:
        body.append(f"{ind}{vs[0]} = {int_helper}({vs[0]}, gain={rng.choice(['2.0', '0.5'])}{rng.choice(['', ', axis=0', ', axis=-1'])})")
    if use_module_consts:
        body.append(f"{ind}{vs[-1]} = op.Add({vs[-1]}, op.ReduceSum(op.Constant(value=TCONST), keepdims=0))")
        body.append(f"{ind}{vs[0]} = op.Add({vs[0]}, op.ReduceSum(op.Constant(value_floats=FLOATS), keepdims=0))")
    if use_const_exprs:
        body.append(f"{ind}{vs[0]} = op.Add(op.Mul({vs[0]}, op.Constant(value_float=K0 * 0.5)), "
                    f"op.ReduceSum(op.Constant(value_floats=[K0, K0 + 1.0]), keepdims=0))")
        body.append(f"{ind}{vs[-1]} = op.Add({rng.choice(['scaled_a', 'scaled_b'])}_{tag}({vs[-1]}), "
                    f"op.ReduceSum(op.Constant(value_ints=[NITER, WIDTH * 2]), keepdims=0) * 1.0)")
    if attr_helper is not None:
        hname, anames = attr_helper
        given = rng.sample(anames, rng.randint(0, len(anames)))
        rng.shuffle(given)
        kw = "".join(f", {a}={rng.choice(['0.25', '3.0', '1.0'])}" for a in given)
        body.append(f"{ind}{vs[-1]} = {hname}({vs[-1]}{kw})")
    # a nested @graph() function used as a Loop body, capturing several outer-scope variables
    if rng.chance(0.3):
        caps = rng.sample(vs + ["x", "y"], min(len(vs) + 2, rng.randint(2, 5)))
        rng.shuffle(caps)
        acc = "st_in"
        for c in caps:
            acc = rng.choice(["op.Add({0}, {1})", "op.Mul({0}, {1})", "op.Sub({0}, {1})"]).format(acc, c)
        body += [
            f"{ind}@graph()",
            f"{ind}def body_{tag}(it: INT64, cnd: BOOL, st_in: FLOAT['N']):",
            f"{ind * 2}cnd_out = op.Identity(cnd)",
            f"{ind * 2}st_out = {acc}",
            f"{ind * 2}return cnd_out, st_out",
            f"{ind}trip_{tag} = op.Constant(value=make_tensor('trip', TensorProto.INT64, [], [2]))",
            f"{ind}{vs[0]} = op.Loop(trip_{tag}, None, {vs[0]}, body=body_{tag})",
        ]

    def block_assign(names: list[str], depth_ind: str, avail: list[str]) -> list[str]:
        out = []
        for v in names:
            if block_helpers and rng.chance(0.4):
                out.append(f"{depth_ind}{v} = {rng.choice(block_helpers)}({rng.choice(avail)}, {rng.choice(avail)})")
            else:
                out.append(f"{depth_ind}{v} = {_expr(rng, avail)}")
        return out

    nblocks = rng.randint(1, 3)
    for b in range(nblocks):
        kind = rng.weighted([("if", 4), ("for", 4), ("while", 2), ("forbreak", 2), ("nested", 2)])
        k = rng.randint(1, len(vs))
        sub = rng.sample(vs, k)
        rng.shuffle(sub)
        if kind == "if":
            body.append(f"{ind}c{b} = op.ReduceSum({rng.choice(vs)}) > op.ReduceSum({rng.choice(['x', 'y'])})")
            body.append(f"{ind}if c{b}:")
            body += block_assign(sub, ind * 2, ["x", "y"] + vs)
            if rng.chance(0.7):
                body.append(f"{ind}else:")
                sub2 = list(sub)
                rng.shuffle(sub2)
                body += block_assign(sub2, ind * 2, ["x", "y"] + vs)
        elif kind == "for":
            bound = rng.choice(["NITER", "3", "2"])
            body.append(f"{ind}for i{b} in range({bound}):")
            body += block_assign(sub, ind * 2, ["x", "y"] + vs)
        elif kind == "while":
            body.append(f"{ind}w{b} = op.ReduceSum({vs[0]}) < 100.0")
            body.append(f"{ind}while w{b}:")
            body += block_assign(sub, ind * 2, ["x", "y"] + vs)
            body.append(f"{ind * 2}w{b} = op.ReduceSum({sub[0]}) < 100.0")
        elif kind == "forbreak":
            body.append(f"{ind}for i{b} in range(5):")
            body += block_assign(sub, ind * 2, ["x", "y"] + vs)
            body.append(f"{ind * 2}brk{b} = op.ReduceSum({sub[0]}) > 1000.0")
            body.append(f"{ind * 2}if brk{b}:")
            body.append(f"{ind * 3}break")
        else:  # loop containing an if
            body.append(f"{ind}for i{b} in range(2):")
            body.append(f"{ind * 2}cc{b} = op.ReduceSum({rng.choice(sub)}) > 0.0")
            body.append(f"{ind * 2}if cc{b}:")
            body += block_assign(sub, ind * 3, ["x", "y"] + vs)
            body.append(f"{ind * 2}else:")
            sub2 = list(sub)
            rng.shuffle(sub2)
            body += block_assign(sub2, ind * 3, ["x", "y"] + vs)
    ret = f"op.Identity({vs[0]})"
    for v in vs[1:]:
        ret = f"op.Add({ret}, {v})"
    if rng.chance(0.3):
        body.insert(0, f'{ind}"""{rng.choice(["Generated model function.", "Main entry: combines the carried variables."])}"""')
    lines += [dec, f"def {fname}(x: FLOAT['N'], y: FLOAT['N']) -> FLOAT['N']:"] + body + [f"{ind}return {ret}", ""]
    return {"src": "\n".join(lines), "fns": [fname] + ([wrapper] if wrapper else []), "tag": tag, "oplike": oplike}


# scripts the decorator must refuse, each in a stable way
BAD_SCRIPTS = [
    ("unbound", """
from onnxscript import script
from onnxscript.onnx_opset import opset18 as op
from onnxscript.onnx_types import FLOAT
@script()
def bad_unbound(x: FLOAT['N']) -> FLOAT['N']:
    c = op.ReduceSum(x) > 0.0
    if c:
        y = op.Neg(x)
    return op.Add(y, x)
"""),
    ("unsupported_stmt", """
from onnxscript import script
from onnxscript.onnx_opset import opset18 as op
from onnxscript.onnx_types import FLOAT
@script()
def bad_stmt(x: FLOAT['N']) -> FLOAT['N']:
    with open('f') as g:
        y = op.Neg(x)
    return y
"""),
    ("return_in_branch", """
from onnxscript import script
from onnxscript.onnx_opset import opset18 as op
from onnxscript.onnx_types import FLOAT
@script()
def bad_ret(x: FLOAT['N']) -> FLOAT['N']:
    c = op.ReduceSum(x) > 0.0
    if c:
        return op.Neg(x)
    return x
"""),
    ("undefined_name", """
from onnxscript import script
from onnxscript.onnx_opset import opset18 as op
from onnxscript.onnx_types import FLOAT
@script()
def bad_name(x: FLOAT['N']) -> FLOAT['N']:
    return op.Add(x, not_defined_anywhere)
"""),
    ("bad_loop", """
from onnxscript import script
from onnxscript.onnx_opset import opset18 as op
from onnxscript.onnx_types import FLOAT
@script()
def bad_loop(x: FLOAT['N']) -> FLOAT['N']:
    y = x
    for i in [1, 2, 3]:
        y = op.Add(y, x)
    return y
"""),
    ("break_not_last", """
from onnxscript import script
from onnxscript.onnx_opset import opset18 as op
from onnxscript.onnx_types import FLOAT
@script()
def bad_break(x: FLOAT['N']) -> FLOAT['N']:
    y = x
    for i in range(3):
        c = op.ReduceSum(y) > 0.0
        if c:
            break
        y = op.Add(y, x)
    return y
"""),
    ("syntax", """
from onnxscript import script
from onnxscript.onnx_opset import opset18 as op
@script()
def bad_syntax(x):
    return op.Add(x,
"""),
]
