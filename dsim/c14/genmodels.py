"""Seeded families of ONNX text models for C14, one per shipped rewrite rule that stashes per-match
state on its (module-level singleton) rule object.  Members of a family share structure and value
names and differ only in the parameters the rule's check() computes and its rewrite() reads back —
exactly what leaks if state survives from one model to the next.  Output is literal ONNX text.
"""
from __future__ import annotations

from dsim.prng import Rng


def _floats(rng: Rng, n: int) -> str:
    return ", ".join(str((rng.below(19) - 9) / 4.0) for _ in range(n))


def fam_pad_conv(rng: Rng) -> str:
    p = rng.choice([1, 2, 3])
    q = rng.choice([0, 1, 2])
    k = rng.choice([1, 3])
    extra = rng.choice(["", ", pads = [1, 1, 1, 1]", ", strides = [2, 2]"])
    mode = rng.choice(["", ', mode = "constant"'])
    return f"""<ir_version: 10, opset_import: ["" : 20]>
agraph (float[1,2,8,8] x) => (float[1,2,?,?] y)
<float[2,2,{k},{k}] W = {{{_floats(rng, 4 * k * k)}}}, int64[8] pads = {{0, 0, {p}, {q}, 0, 0, {p}, {q}}}>
{{
   padded = Pad <mode = "constant"> (x, pads)
   y = Conv <kernel_shape = [{k}, {k}]{extra}> (padded, W)
}}"""


def fam_pad_conv_fail_tail(rng: Rng) -> str:
    """Pad->Conv followed by a Relu->Clip tail (another shipped rule inspects it later in the same traversal)."""
    p = rng.choice([1, 2, 3])
    return f"""<ir_version: 10, opset_import: ["" : 20]>
agraph (float[1,2,8,8] x) => (float[1,2,?,?] y)
<float[2,2,3,3] W = {{{_floats(rng, 36)}}}, int64[8] pads = {{0, 0, {p}, {p}, 0, 0, {p}, {p}}}, float lo = {{0.0}}, float hi = {{{rng.choice([1.0, 6.0])}}}>
{{
   padded = Pad(x, pads)
   c = Conv <kernel_shape = [3, 3]> (padded, W)
   r = Relu(c)
   y = Clip(r, lo, hi)
}}"""


def fam_reshape_reshape(rng: Rng) -> str:
    a = rng.choice([[2, 12], [4, 6], [3, 8], [24]])
    b = rng.choice([[6, 4], [8, 3], [2, 3, 4], [1, 24], [24, 1], [-1, 2]])
    az = rng.choice(["", "<allowzero = 0>", "<allowzero = 1>"]) if 0 not in b else ""
    return f"""<ir_version: 10, opset_import: ["" : 20]>
agraph (float[2,3,4] x) => (float[?] y)
<int64[{len(a)}] shape1 = {{{", ".join(map(str, a))}}}, int64[{len(b)}] shape2 = {{{", ".join(map(str, b))}}}>
{{
   t = Reshape(x, shape1)
   y = Reshape {az} (t, shape2)
}}"""


def fam_flatten(rng: Rng) -> str:
    axis = rng.choice([0, 1, 2, 3, -1, -2])
    return f"""<ir_version: 10, opset_import: ["" : 20]>
agraph (float[2,3,4] x) => (float[?,?] y)
{{
   t = Relu(x)
   y = Flatten <axis = {axis}> (t)
}}"""


def fam_cast_cast(rng: Rng) -> str:
    t1 = rng.choice([1, 10, 11, 16])
    t2 = rng.choice([1, 10, 11, 6, 7])
    return f"""<ir_version: 10, opset_import: ["" : 20]>
agraph (float[4] x) => (float[4] y)
{{
   t = Cast <to = {t1}> (x)
   u = Cast <to = {t2}> (t)
   y = Cast <to = 1> (u)
}}"""


def fam_transpose(rng: Rng) -> str:
    perms = [[0, 1, 2], [1, 0, 2], [2, 1, 0], [0, 2, 1], [1, 2, 0], [2, 0, 1]]
    p1, p2 = rng.choice(perms), rng.choice(perms)
    return f"""<ir_version: 10, opset_import: ["" : 20]>
agraph (float[2,3,4] x) => (float[?,?,?] y)
{{
   t = Transpose <perm = {p1}> (x)
   y = Transpose <perm = {p2}> (t)
}}"""


def fam_minmax(rng: Rng) -> str:
    o1, o2 = rng.choice(["Min", "Max"]), rng.choice(["Min", "Max"])
    a, b = rng.choice([0.5, 1.0, 3.0, -2.0]), rng.choice([0.25, 2.0, 6.0, -1.0])
    return f"""<ir_version: 10, opset_import: ["" : 20]>
agraph (float[4] x) => (float[4] y)
<float c1 = {{{a}}}, float c2 = {{{b}}}>
{{
   t = {o1}(x, c1)
   y = {o2}(t, c2)
}}"""


def fam_clip_relu(rng: Rng) -> str:
    lo, hi = rng.choice([-1.0, 0.0, 0.5]), rng.choice([1.0, 6.0, 2.5])
    order = rng.choice(["relu_clip", "clip_relu", "clip_clip", "relu_relu"])
    body = {
        "relu_clip": "t = Relu(x)\n   y = Clip(t, lo, hi)",
        "clip_relu": "t = Clip(x, lo, hi)\n   y = Relu(t)",
        "clip_clip": "t = Clip(x, lo, hi)\n   y = Clip(t, lo2, hi)",
        "relu_relu": "t = Relu(x)\n   y = Relu(t)",
    }[order]
    return f"""<ir_version: 10, opset_import: ["" : 20]>
agraph (float[4] x) => (float[4] y)
<float lo = {{{lo}}}, float hi = {{{hi}}}, float lo2 = {{{rng.choice([-3.0, 0.25])}}}>
{{
   {body}
}}"""


def fam_unsqueeze(rng: Rng) -> str:
    a1, a2 = rng.choice([0, 1, 2]), rng.choice([0, 1, 2, 3])
    return f"""<ir_version: 10, opset_import: ["" : 20]>
agraph (float[3,4] x) => (float[?,?,?,?] y)
<int64[1] ax1 = {{{a1}}}, int64[1] ax2 = {{{a2}}}>
{{
   t = Unsqueeze(x, ax1)
   y = Unsqueeze(t, ax2)
}}"""


def fam_batchnorm_conv(rng: Rng) -> str:
    eps = rng.choice(["1e-05", "0.001", "0.1"])
    op = rng.choice(["Conv", "Conv", "ConvTranspose"])
    bias = rng.chance(0.5)
    binit = f", float[2] B = {{{_floats(rng, 2)}}}" if bias else ""
    bin_ = ", B" if bias else ""
    return f"""<ir_version: 10, opset_import: ["" : 20]>
agraph (float[1,2,6,6] x) => (float[1,2,?,?] y)
<float[2,2,3,3] W = {{{_floats(rng, 36)}}}{binit}, float[2] scale = {{{_floats(rng, 2)}}}, float[2] bnb = {{{_floats(rng, 2)}}},
 float[2] mean = {{{_floats(rng, 2)}}}, float[2] var = {{1.0, {rng.choice([0.5, 2.0])}}}>
{{
   c = {op} <kernel_shape = [3, 3]> (x, W{bin_})
   y = BatchNormalization <epsilon = {eps}> (c, scale, bnb, mean, var)
}}"""


def fam_batchnorm_gemm(rng: Rng) -> str:
    eps = rng.choice(["1e-05", "0.01"])
    tb = rng.choice([0, 1])
    return f"""<ir_version: 10, opset_import: ["" : 20]>
agraph (float[2,3] x) => (float[2,3] y)
<float[3,3] W = {{{_floats(rng, 9)}}}, float[3] B = {{{_floats(rng, 3)}}}, float[3] scale = {{{_floats(rng, 3)}}}, float[3] bnb = {{{_floats(rng, 3)}}},
 float[3] mean = {{{_floats(rng, 3)}}}, float[3] var = {{1.0, 0.5, 2.0}}>
{{
   g = Gemm <transB = {tb}, alpha = {rng.choice(["1.0", "0.5"])}> (x, W, B)
   y = BatchNormalization <epsilon = {eps}> (g, scale, bnb, mean, var)
}}"""


def fam_matmul_add(rng: Rng) -> str:
    variant = rng.choice(["plain", "ta", "tb"])
    pre = {"plain": "m = MatMul(x, W)", "ta": "xt = Transpose <perm = [1, 0]> (x2)\n   m = MatMul(xt, W)",
           "tb": "wt = Transpose <perm = [1, 0]> (W)\n   m = MatMul(x, wt)"}[variant]
    return f"""<ir_version: 10, opset_import: ["" : 20]>
agraph (float[2,3] x, float[3,2] x2) => (float[2,3] y)
<float[3,3] W = {{{_floats(rng, 9)}}}, float[3] B = {{{_floats(rng, 3)}}}>
{{
   {pre}
   y = Add(m, B)
}}"""


def fam_slice(rng: Rng) -> str:
    end = rng.choice([4, 9223372036854775807, 2])
    step = rng.choice([1, 1, 2])
    return f"""<ir_version: 10, opset_import: ["" : 20]>
agraph (float[4,6] x) => (float[?,?] y)
<int64[1] starts = {{0}}, int64[1] ends = {{{end}}}, int64[1] axes = {{{rng.choice([0, 1])}}}, int64[1] steps = {{{step}}}>
{{
   t = Relu(x)
   y = Slice(t, starts, ends, axes, steps)
}}"""


def fam_expand(rng: Rng) -> str:
    shp = rng.choice([[1, 1], [3, 4], [1, 4], [2, 3, 4]])
    return f"""<ir_version: 10, opset_import: ["" : 20]>
agraph (float[3,4] x) => (float[?,?,?] y)
<int64[{len(shp)}] shape = {{{", ".join(map(str, shp))}}}>
{{
   t = Expand(x, shape)
   y = Relu(t)
}}"""


def fam_cast_constant_of_shape(rng: Rng) -> str:
    to = rng.choice([1, 6, 7, 10, 11])
    val = rng.choice(["", "<value = float[1] {2.5}>", "<value = int64[1] {3}>"])
    return f"""<ir_version: 10, opset_import: ["" : 20]>
agraph (int64[2] shape) => (float[?,?] y)
{{
   c = ConstantOfShape {val} (shape)
   k = Cast <to = {to}> (c)
   y = Cast <to = 1> (k)
}}"""


def fam_materialize_reshape(rng: Rng) -> str:
    d = rng.choice([2, 3, 4])
    return f"""<ir_version: 10, opset_import: ["" : 20]>
agraph (float[{d},6] x) => (float[?,?] y)
<int64[1] two = {{{rng.choice([2, 3])}}}>
{{
   s = Shape <start = 0, end = 1> (x)
   shp = Concat <axis = 0> (two, s)
   y = Reshape(x, shp)
}}"""


def fam_fold_chain(rng: Rng) -> str:
    """Constant-foldable prefix followed by a data-dependent suffix (exercises FoldConstantsPass state)."""
    a, b = rng.choice([1.0, 2.0, -3.0]), rng.choice([0.5, 4.0])
    foldable = rng.chance(0.75)
    first = "c = Add(k1, k2)" if foldable else "c = Add(x, k2)"
    return f"""<ir_version: 10, opset_import: ["" : 20]>
agraph (float[2] x) => (float[2] y)
<float[2] k1 = {{{a}, {b}}}, float[2] k2 = {{{b}, {a}}}>
{{
   {first}
   d = Mul(c, k1)
   y = Add(x, d)
}}"""


def fam_rms_norm(rng: Rng) -> str:
    """RMS-normalisation subgraph (rules/fusion/_rms_normalization stashes the compute dtype in check())."""
    xt, xn = rng.choice([("float16", 10), ("float", 1), ("double", 11)])
    compute = rng.choice([1, 11]) if xt == "float16" else None
    eps = rng.choice(["1e-05", "1e-06", "0.001"])
    ct = {1: "float", 11: "double"}.get(compute, xt)
    xin, nout = ("xc", "nc") if compute else ("x", "n")
    order = rng.choice([f"Mul({nout}, scale)", f"Mul(scale, {nout})"])
    cast_in = f"xc = Cast <to = {compute}> (x)" if compute else "unused_in = Identity(x)"
    cast_out = f"nc = Cast <to = {xn}> (n)" if compute else "unused_out = Identity(scale)"
    return f"""<ir_version: 10, opset_import: ["" : 23]>
agraph ({xt}[2,4] x, {xt}[4] scale) => ({xt}[2,4] y)
<{ct} eps = {{{eps}}}, {ct} two = {{2.0}}, int64[1] axes = {{-1}}>
{{
   {cast_in}
   sq = Pow({xin}, two)
   ms = ReduceMean <keepdims = 1, noop_with_empty_axes = 0> (sq, axes)
   mse = Add(ms, eps)
   rms = Sqrt(mse)
   rr = Reciprocal(rms)
   n = Mul({xin}, rr)
   {cast_out}
   y = {order}
}}"""


def fam_layer_norm(rng: Rng) -> str:
    """LayerNorm subgraph (rules/fusion/_layer_norm stashes epsilon and stash type in check())."""
    xt = rng.choice(["float", "double"])
    eps = rng.choice(["1e-05", "1e-06", "0.01"])
    sq = rng.choice(["dd = Mul(d, d)", "dd = Pow(d, two)"])
    norm = rng.choice(["inv = Reciprocal(sd)\n   n = Mul(d, inv)", "n = Div(d, sd)"])
    bias = rng.chance(0.5)
    tail = "ns = Mul(n, scale)\n   y = Add(ns, bias)" if bias else "y = Mul(n, scale)"
    return f"""<ir_version: 10, opset_import: ["" : 18]>
agraph ({xt}[2,4] x, {xt}[4] scale, {xt}[4] bias) => ({xt}[2,4] y)
<{xt} eps = {{{eps}}}, {xt} two = {{2.0}}, int64[1] axes = {{-1}}>
{{
   mean = ReduceMean <keepdims = 1> (x, axes)
   d = Sub(x, mean)
   {sq}
   var = ReduceMean <keepdims = 1> (dd, axes)
   ve = Add(var, eps)
   sd = Sqrt(ve)
   {norm}
   {tail}
}}"""


def fam_gelu(rng: Rng) -> str:
    """Gelu sub-graphs (ort_fusions/gelu.py, erfgelu.py, bias_gelu.py: replacements live in the com.microsoft domain,
    so a fired rule adds an opset import to the model)."""
    variant = rng.choice(["erf_a", "erf_b", "tanh"])
    n = rng.choice([4, 8])
    pre = "xb = Add(x, bias)" if rng.chance(0.5) else "xb = Identity(x)"
    if variant == "erf_a":      # gelu.py GeluErfFusion: Mul(Mul(x, Erf(x / sqrt2) + 1), 0.5)
        body = "d = Div(xb, sqrt2)\n   e = Erf(d)\n   a = Add(e, one)\n   m = Mul(xb, a)\n   y = Mul(m, half)"
    elif variant == "erf_b":    # erfgelu.py pattern 1: 0.5 * (x * (Erf(x / sqrt2) + 1))
        body = "d = Div(xb, sqrt2)\n   e = Erf(d)\n   a = Add(e, one)\n   m = Mul(xb, a)\n   y = Mul(half, m)"
    else:                       # gelu.py GeluTanhFusion
        body = ("t1 = Pow(xb, three)\n   t2 = Mul(c044, t1)\n   t3 = Add(xb, t2)\n   t4 = Mul(s2pi, t3)\n   t5 = Tanh(t4)\n"
                "   t6 = Add(t5, one)\n   t7 = Mul(half, t6)\n   y = Mul(xb, t7)")
    return f"""<ir_version: 10, opset_import: ["" : {rng.choice([18, 20])}]>
agraph (float[2,{n}] x, float[{n}] bias) => (float[2,{n}] y)
<float sqrt2 = {{1.4142135623730951}}, float one = {{1.0}}, float half = {{0.5}}, float three = {{3.0}}, float c044 = {{0.044715}},
 float s2pi = {{0.7978845608028654}}>
{{
   {pre}
   {body}
}}"""


def fam_slice_split(rng: Rng) -> str:
    """Two Slices of the halves of the last axis (SlicesSplit: the only shipped rule whose pattern has two output nodes)."""
    k = rng.choice([2, 3, 4])
    order = rng.chance(0.5)
    mid = rng.choice(["", "r = Relu(x)\n   "])
    s0 = "a = Slice(x, b0, e0, ax)"
    s1 = "b = Slice(x, b1, e1, ax)"
    first, second = (s0, s1) if order else (s1, s0)
    return f"""<ir_version: 10, opset_import: ["" : 20]>
agraph (float[2,{2 * k}] x) => (float[2,{k}] y)
<int64[1] b0 = {{0}}, int64[1] e0 = {{{k}}}, int64[1] b1 = {{{k}}}, int64[1] e1 = {{{2 * k}}}, int64[1] ax = {{{rng.choice([-1, 1])}}}>
{{
   {mid}{first}
   {second}
   y = {rng.choice(["Add(a, b)", "Mul(b, a)", "Sub(a, b)"])}
}}"""


FAMILIES = {
    "pad_conv": fam_pad_conv, "pad_conv_tail": fam_pad_conv_fail_tail, "reshape_reshape": fam_reshape_reshape,
    "flatten": fam_flatten, "cast_cast": fam_cast_cast, "transpose": fam_transpose, "minmax": fam_minmax,
    "clip_relu": fam_clip_relu, "unsqueeze": fam_unsqueeze, "bn_conv": fam_batchnorm_conv, "bn_gemm": fam_batchnorm_gemm,
    "matmul_add": fam_matmul_add, "slice": fam_slice, "expand": fam_expand, "cast_cos": fam_cast_constant_of_shape,
    "mat_reshape": fam_materialize_reshape, "fold_chain": fam_fold_chain,
    "rms_norm": fam_rms_norm, "layer_norm": fam_layer_norm, "gelu": fam_gelu, "slice_split": fam_slice_split,
}


def gen_model(rng: Rng, family: str | None = None) -> tuple[str, str]:
    fam = family or rng.choice(sorted(FAMILIES))
    # pad_conv_tail is the same rule's family as pad_conv (a later rule fails in the same traversal)
    return "gen:" + {"pad_conv_tail": "pad_conv"}.get(fam, fam), FAMILIES[fam](rng)
