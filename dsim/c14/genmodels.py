"""Seeded families of ONNX text models for C14, one per shipped rewrite rule that stashes per-match
state on its (module-level singleton) rule object.  Members of a family share structure and value
names and differ only in the parameters the rule's check() computes and its rewrite() reads back —
exactly what leaks if state survives from one model to the next.  Output is literal ONNX text.
"""
from __future__ import annotations

from dsim.prng import Rng


_MEMBER: tuple[int, int] | None = None   # (member index, per-batch offset): stratify variants instead of sampling them


def _variant(rng: Rng, weighted: list) -> str:
    """Variant of a family member. Inside a batch the members of a family walk through the variants without
    replacement (so that a handful of members already covers the rule's special paths); otherwise weighted sampling."""
    if _MEMBER is None:
        return rng.weighted(weighted)
    names = [n for n, _ in weighted]
    member, offset = _MEMBER
    return names[(member + offset) % len(names)]


def _floats(rng: Rng, n: int) -> str:
    return ", ".join(str((rng.below(19) - 9) / 4.0) for _ in range(n))


def fam_pad_conv(rng: Rng) -> str:
    """Pad -> Conv / ConvInteger with every path of the rule's check(): optional constant_value / axes inputs, pad modes,
    non-constant pads, pads in non-spatial dims, negative pads, auto_pad on the Conv, unknown input shape."""
    p = rng.choice([1, 2, 3])
    q = rng.choice([0, 1, 2])
    k = rng.choice([1, 3])
    v = _variant(rng, [("plain", 5), ("mode_reflect", 1), ("cv_zero", 2), ("cv_one", 1), ("axes", 2), ("axes_neg", 1),
                      ("pads_input", 1), ("nonspatial", 1), ("negative", 1), ("auto_pad", 2), ("unknown_shape", 1), ("conv_integer", 2)])
    extra = rng.choice(["", ", pads = [1, 1, 1, 1]", ", strides = [2, 2]"])
    xdecl = "float[1,2,8,8] x" if v != "unknown_shape" else "float[N,C,H,W] x"
    inits = [f"float[2,2,{k},{k}] W = {{{_floats(rng, 4 * k * k)}}}"]
    inputs = [xdecl]
    pad_args = "x, pads"
    pad_attr = ' <mode = "constant">' if rng.chance(0.5) else ""
    pads8 = f"0, 0, {p}, {q}, 0, 0, {p}, {q}"
    if v == "mode_reflect":
        pad_attr = f' <mode = "{rng.choice(["reflect", "edge"])}">'
    if v == "nonspatial":
        pads8 = f"0, 1, {p}, {q}, 0, 0, {p}, {q}"
    if v == "negative":
        pads8 = f"0, 0, -1, {q}, 0, 0, {p}, {q}"
    if v == "pads_input":
        inputs.append("int64[8] pads")
    elif v in ("axes", "axes_neg"):
        inits.append(f"int64[4] pads = {{{p}, {q}, {p}, {q}}}")
        inits.append("float cv = {0.0}")
        inits.append(f"int64[2] axes = {{{'2, 3' if v == 'axes' else '-2, -1'}}}")
        pad_args = "x, pads, cv, axes"
    else:
        inits.append(f"int64[8] pads = {{{pads8}}}")
    if v in ("cv_zero", "cv_one"):
        inits.append(f"float cv = {{{'0.0' if v == 'cv_zero' else '1.0'}}}")
        pad_args = "x, pads, cv"
    conv_attr = f"kernel_shape = [{k}, {k}]{extra}"
    if v == "auto_pad":
        conv_attr = f'kernel_shape = [{k}, {k}], auto_pad = "{rng.choice(["SAME_UPPER", "SAME_LOWER", "VALID"])}"'
    if v == "conv_integer":
        return f"""<ir_version: 10, opset_import: ["" : 20]>
agraph (uint8[1,2,8,8] x) => (int32[1,2,?,?] y)
<uint8[2,2,{k},{k}] W = {{{", ".join(str(rng.below(5)) for _ in range(4 * k * k))}}}, int64[8] pads = {{{pads8}}}>
{{
   padded = Pad(x, pads)
   y = ConvInteger <kernel_shape = [{k}, {k}]> (padded, W)
}}"""
    return f"""<ir_version: 10, opset_import: ["" : 20]>
agraph ({", ".join(inputs)}) => (float[1,2,?,?] y)
<{", ".join(inits)}>
{{
   padded = Pad{pad_attr} ({pad_args})
   y = Conv <{conv_attr}> (padded, W)
}}"""


def fam_pad_conv_fail_tail(rng: Rng) -> str:
    """Pad->Conv followed by a Relu->Clip tail (another shipped rule inspects it later in the same traversal)."""
    p = rng.choice([1, 2, 3])
    return f"""<ir_version: 10, opset_import: ["" : 20]>
agraph (float[1,2,8,8] x) => (float[1,2,?,?] y)
<float[2,2,3,3] W = {{{_floats(rng, 36)}}}, int64[8] pads = {{0, 0, {p}, {p}, 0, 0, {p}, {p}}}, float lo = {{0.0}}, float hi = {{{rng.choice([1.0, 6.0])}}}>
{{
   padded = Pad(x, pads)
   c = Conv <kernel_shape = [3, 3]> (padded, W)
   r = Relu(c)
   y = Clip(r, lo, hi)
}}"""


def fam_reshape_reshape(rng: Rng) -> str:
    """Reshape o Reshape with every path of ReshapeReshape.check(): plain shapes, -1, a 0 that copies a dim, allowzero=1
    with explicit zeros (empty tensors), 0 together with -1 (refused), two zeros (refused), non-constant shape."""
    v = _variant(rng, [("plain", 5), ("minus_one", 2), ("zero_copy", 2), ("allowzero_empty", 3), ("zero_and_minus", 1),
                      ("two_zeros", 1), ("shape_input", 1), ("identity", 1)])
    xshape, a = [2, 3, 4], rng.choice([[2, 12], [4, 6], [3, 8], [24]])
    az = rng.choice(["", "<allowzero = 0>"])
    if v == "plain":
        b = rng.choice([[6, 4], [8, 3], [2, 3, 4], [1, 24], [24, 1]])
        az = rng.choice(["", "<allowzero = 0>", "<allowzero = 1>"])
    elif v == "minus_one":
        b = rng.choice([[-1, 2], [4, -1], [2, -1, 3]])
    elif v == "zero_copy":
        a, b = [2, 12], rng.choice([[0, 12], [0, 3, 4]])
    elif v == "allowzero_empty":
        xshape, a, b, az = [3, 0, 8], rng.choice([[4, 2, 0, 0], [0, 24], [6, 0, 4]]), rng.choice([[3, 0], [0, 5], [2, 0, 7]]), "<allowzero = 1>"
    elif v == "zero_and_minus":
        a, b = [2, 12], [0, -1]
    elif v == "two_zeros":
        a, b = [2, 3, 4], [0, 0, 4]
    elif v == "identity":
        a, b = [6, 4], [2, 3, 4]
    else:
        b = [6, 4]
    a_attr = "<allowzero = 1>" if v == "allowzero_empty" else ""
    shape2 = "" if v == "shape_input" else f", int64[{len(b)}] shape2 = {{{', '.join(map(str, b))}}}"
    extra_in = ", int64[2] shape2" if v == "shape_input" else ""
    return f"""<ir_version: 10, opset_import: ["" : 20]>
agraph (float[{",".join(map(str, xshape))}] x{extra_in}) => (float[?] y)
<int64[{len(a)}] shape1 = {{{", ".join(map(str, a))}}}{shape2}>
{{
   t = Reshape {a_attr} (x, shape1)
   y = Reshape {az} (t, shape2)
}}"""


def fam_flatten(rng: Rng) -> str:
    axis = rng.choice([0, 1, 2, 3, -1, -2])
    xdecl = rng.choice(["float[2,3,4] x", "float[2,3,4] x", "float[N,3,4] x", "float[N,M,K] x", "float[2,3] x"])
    return f"""<ir_version: 10, opset_import: ["" : 20]>
agraph ({xdecl}) => (float[?,?] y)
{{
   t = Relu(x)
   y = Flatten <axis = {axis}> (t)
}}"""


def fam_cast_cast(rng: Rng) -> str:
    t1 = rng.choice([1, 10, 11, 16])
    t2 = rng.choice([1, 10, 11, 6, 7])
    t3 = rng.choice([1, 1, t2])   # a Cast to the type its input already has is an identity (CastIdentity)
    return f"""<ir_version: 10, opset_import: ["" : 20]>
agraph (float[4] x) => (float[4] y)
{{
   s = Cast <to = 1> (x)
   t = Cast <to = {t1}> (s)
   u = Cast <to = {t2}> (t)
   w = Cast <to = {t3}> (u)
   y = Cast <to = 1> (w)
}}"""


def fam_transpose(rng: Rng) -> str:
    perms = [[0, 1, 2], [1, 0, 2], [2, 1, 0], [0, 2, 1], [1, 2, 0], [2, 0, 1]]
    p1, p2 = rng.choice(perms), rng.choice(perms)
    second = f"Transpose <perm = {p2}> (t)" if rng.chance(0.8) else "Transpose (t)"
    return f"""<ir_version: 10, opset_import: ["" : 20]>
agraph (float[2,3,4] x) => (float[?,?,?] y)
{{
   t = Transpose <perm = {p1}> (x)
   y = {second}
}}"""


def fam_minmax(rng: Rng) -> str:
    """Min/Max chains; variants with two chains hanging off the same value and with an initializer that already owns the name
    the rule derives for its new constants (`<input>_min` / `<input>_max`)."""
    o1, o2 = rng.choice(["Min", "Max"]), rng.choice(["Min", "Max"])
    a, b = rng.choice([0.5, 1.0, 3.0, -2.0]), rng.choice([0.25, 2.0, 6.0, -1.0])
    v = _variant(rng, [("single", 3), ("fanout", 2), ("name_taken", 1), ("fanout3", 1)])
    extra_init, extra_body, outs = "", "", "float[4] y"
    if v in ("fanout", "fanout3"):
        extra_body = f"\n   t2 = {o2}(x, c2)\n   y2 = {o1}(t2, c1)"
        outs += ", float[4] y2"
        if v == "fanout3":
            extra_body += f"\n   t3 = {o1}(x, c2)\n   y3 = {o2}(t3, c2)"
            outs += ", float[4] y3"
    if v == "name_taken":
        extra_init = ", float x_min = {9.0}, float x_max = {-9.0}"
        extra_body = "\n   z = Add(x_min, x_max)"
        outs += ", float z"
    return f"""<ir_version: 10, opset_import: ["" : 20]>
agraph (float[4] x) => ({outs})
<float c1 = {{{a}}}, float c2 = {{{b}}}{extra_init}>
{{
   t = {o1}(x, c1)
   y = {o2}(t, c2){extra_body}
}}"""


def fam_clip_relu(rng: Rng) -> str:
    lo, hi = rng.choice([-1.0, 0.0, 0.5]), rng.choice([1.0, 6.0, 2.5])
    order = rng.choice(["relu_clip", "clip_relu", "clip_clip", "relu_relu"])
    body = {
        "relu_clip": "t = Relu(x)\n   y = Clip(t, lo, hi)",
        "clip_relu": "t = Clip(x, lo, hi)\n   y = Relu(t)",
        "clip_clip": "t = Clip(x, lo, hi)\n   y = Clip(t, lo2, hi)",
        "relu_relu": "t = Relu(x)\n   y = Relu(t)",
    }[order]
    v = _variant(rng, [("single", 3), ("fanout", 2), ("name_taken", 1), ("fanout3", 1)])
    extra_init, outs = "", "float[4] y"
    if v in ("fanout", "fanout3"):
        body += "\n   u = Clip(x, lo2, hi)\n   y2 = Relu(u)"
        outs += ", float[4] y2"
        if v == "fanout3":
            body += "\n   w = Relu(x)\n   y3 = Clip(w, lo, hi)"
            outs += ", float[4] y3"
    if v == "name_taken":
        extra_init = ", float x_min = {9.0}, float x_max = {-9.0}"
        body += "\n   z = Add(x_min, x_max)"
        outs += ", float z"
    return f"""<ir_version: 10, opset_import: ["" : 20]>
agraph (float[4] x) => ({outs})
<float lo = {{{lo}}}, float hi = {{{hi}}}, float lo2 = {{{rng.choice([-3.0, 0.25])}}}{extra_init}>
{{
   {body}
}}"""


def fam_unsqueeze(rng: Rng) -> str:
    a1, a2 = rng.choice([0, 1, 2, -1]), rng.choice([0, 1, 2, 3, -1])
    nonconst = rng.chance(0.15)
    ax2 = "" if nonconst else f", int64[1] ax2 = {{{a2}}}"
    extra_in = ", int64[1] ax2" if nonconst else ""
    return f"""<ir_version: 10, opset_import: ["" : 20]>
agraph (float[3,4] x{extra_in}) => (float[?,?,?,?] y)
<int64[1] ax1 = {{{a1}}}{ax2}>
{{
   t = Unsqueeze(x, ax1)
   y = Unsqueeze(t, ax2)
}}"""


def fam_batchnorm_conv(rng: Rng) -> str:
    eps = rng.choice(["1e-05", "0.001", "0.1"])
    op = rng.choice(["Conv", "Conv", "ConvTranspose"])
    bias = rng.chance(0.5)
    binit = f", float[2] B = {{{_floats(rng, 2)}}}" if bias else ""
    bin_ = ", B" if bias else ""
    return f"""<ir_version: 10, opset_import: ["" : 20]>
agraph (float[1,2,6,6] x) => (float[1,2,?,?] y)
<float[2,2,3,3] W = {{{_floats(rng, 36)}}}{binit}, float[2] scale = {{{_floats(rng, 2)}}}, float[2] bnb = {{{_floats(rng, 2)}}},
 float[2] mean = {{{_floats(rng, 2)}}}, float[2] var = {{1.0, {rng.choice([0.5, 2.0])}}}>
{{
   c = {op} <kernel_shape = [3, 3]> (x, W{bin_})
   y = BatchNormalization <epsilon = {eps}> (c, scale, bnb, mean, var)
}}"""


def fam_batchnorm_gemm(rng: Rng) -> str:
    eps = rng.choice(["1e-05", "0.01"])
    tb = rng.choice([0, 1])
    return f"""<ir_version: 10, opset_import: ["" : 20]>
agraph (float[2,3] x) => (float[2,3] y)
<float[3,3] W = {{{_floats(rng, 9)}}}, float[3] B = {{{_floats(rng, 3)}}}, float[3] scale = {{{_floats(rng, 3)}}}, float[3] bnb = {{{_floats(rng, 3)}}},
 float[3] mean = {{{_floats(rng, 3)}}}, float[3] var = {{1.0, 0.5, 2.0}}>
{{
   g = Gemm <transB = {tb}, alpha = {rng.choice(["1.0", "0.5"])}> (x, W, B)
   y = BatchNormalization <epsilon = {eps}> (g, scale, bnb, mean, var)
}}"""


def fam_matmul_add(rng: Rng) -> str:
    variant = rng.choice(["plain", "ta", "tb"])
    pre = {"plain": "m = MatMul(x, W)", "ta": "xt = Transpose <perm = [1, 0]> (x2)\n   m = MatMul(xt, W)",
           "tb": "wt = Transpose <perm = [1, 0]> (W)\n   m = MatMul(x, wt)"}[variant]
    return f"""<ir_version: 10, opset_import: ["" : 20]>
agraph (float[2,3] x, float[3,2] x2) => (float[2,3] y)
<float[3,3] W = {{{_floats(rng, 9)}}}, float[3] B = {{{_floats(rng, 3)}}}>
{{
   {pre}
   y = Add(m, B)
}}"""


def fam_slice(rng: Rng) -> str:
    end = rng.choice([4, 9223372036854775807, 2])
    step = rng.choice([1, 1, 2])
    return f"""<ir_version: 10, opset_import: ["" : 20]>
agraph (float[4,6] x) => (float[?,?] y)
<int64[1] starts = {{0}}, int64[1] ends = {{{end}}}, int64[1] axes = {{{rng.choice([0, 1])}}}, int64[1] steps = {{{step}}}>
{{
   t = Relu(x)
   y = Slice(t, starts, ends, axes, steps)
}}"""


def fam_expand(rng: Rng) -> str:
    shp = rng.choice([[1, 1], [3, 4], [1, 4], [2, 3, 4]])
    return f"""<ir_version: 10, opset_import: ["" : 20]>
agraph (float[3,4] x) => (float[?,?,?] y)
<int64[{len(shp)}] shape = {{{", ".join(map(str, shp))}}}>
{{
   t = Expand(x, shape)
   y = Relu(t)
}}"""


def fam_cast_constant_of_shape(rng: Rng) -> str:
    to = rng.choice([1, 6, 7, 10, 11])
    val = rng.choice(["", "<value = float[1] {2.5}>", "<value = int64[1] {3}>"])
    return f"""<ir_version: 10, opset_import: ["" : 20]>
agraph (int64[2] shape) => (float[?,?] y)
{{
   c = ConstantOfShape {val} (shape)
   k = Cast <to = {to}> (c)
   y = Cast <to = 1> (k)
}}"""


def fam_materialize_reshape(rng: Rng) -> str:
    d = rng.choice([2, 3, 4])
    return f"""<ir_version: 10, opset_import: ["" : 20]>
agraph (float[{d},6] x) => (float[?,?] y)
<int64[1] two = {{{rng.choice([2, 3])}}}>
{{
   s = Shape <start = 0, end = 1> (x)
   shp = Concat <axis = 0> (two, s)
   y = Reshape(x, shp)
}}"""


def fam_fold_chain(rng: Rng) -> str:
    """Constant-foldable prefix followed by a data-dependent suffix (exercises FoldConstantsPass state and the reference
    evaluator), including members whose all-constant node cannot be evaluated (the evaluation raises and folding is
    skipped) next to members where the same op with the same dtypes folds fine."""
    a, b = rng.choice([1.0, 2.0, -3.0]), rng.choice([0.5, 4.0])
    # each "cannot be evaluated" variant sits next to its "folds fine" twin (same op, same dtypes, same opset version)
    v = _variant(rng, [("float_ok_add", 2), ("float_ok_other", 2), ("float_bad_broadcast", 2), ("int_pow_ok", 2), ("int_pow_negative", 2),
                       ("reshape_ok", 1), ("reshape_bad", 1), ("int_div_ok", 1), ("int_div_zero", 1), ("float_not_foldable", 2)])
    ver = 20
    if v.startswith("float"):
        k2 = f"float[3] k2 = {{{b}, {a}, 1.0}}" if v == "float_bad_broadcast" else f"float[2] k2 = {{{b}, {a}}}"
        # the same value names produced by different operators
        fop = "Add" if v == "float_ok_add" else rng.choice(["Mul", "Sub"]) if v == "float_ok_other" else rng.choice(["Add", "Mul", "Sub"])
        first = f"c = {fop}(x, k2)" if v == "float_not_foldable" else f"c = {fop}(k1, k2)"
        return f"""<ir_version: 10, opset_import: ["" : {ver}]>
agraph (float[2] x) => (float[?] y)
<float[2] k1 = {{{a}, {b}}}, {k2}>
{{
   {first}
   d = Mul(c, k1)
   y = Add(x, d)
}}"""
    if v.startswith("int_pow"):
        e = "-1, 2" if v == "int_pow_negative" else "3, 2"
        return f"""<ir_version: 10, opset_import: ["" : {ver}]>
agraph (int64[2] x) => (int64[2] y)
<int64[2] base = {{2, {rng.choice([3, 5])}}}, int64[2] exp = {{{e}}}>
{{
   p = Pow(base, exp)
   y = Add(x, p)
}}"""
    if v.startswith("int_div"):
        d = "0, 2" if v == "int_div_zero" else "4, 2"
        return f"""<ir_version: 10, opset_import: ["" : {ver}]>
agraph (int64[2] x) => (int64[2] y)
<int64[2] num = {{8, {rng.choice([6, 10])}}}, int64[2] den = {{{d}}}>
{{
   q = Div(num, den)
   r = Mod(num, den)
   s = Add(q, r)
   y = Add(x, s)
}}"""
    shp = "4, 2" if v == "reshape_bad" else "3, 2"
    return f"""<ir_version: 10, opset_import: ["" : {ver}]>
agraph (float[3,2] x) => (float[?,?] y)
<float[6] k = {{{_floats(rng, 6)}}}, int64[2] shp = {{{shp}}}>
{{
   r = Reshape(k, shp)
   y = Add(x, r)
}}"""


def fam_rms_norm(rng: Rng) -> str:
    """RMS-normalisation subgraph (rules/fusion/_rms_normalization and ort_fusions/rms_normalization stash the compute
    dtype in check(); the ORT pattern also accepts the scale through a Cast)."""
    scale_via = _variant(rng, [("direct", 3), ("cast_to_compute", 2), ("cast_to_target", 2), ("direct_fp16", 1)])
    xt, xn = ("float16", 10) if scale_via != "direct" else rng.choice([("float16", 10), ("float", 1), ("double", 11)])
    compute = rng.choice([1, 11]) if xt == "float16" else None
    eps = rng.choice(["1e-05", "1e-06", "0.001"])
    ct = {1: "float", 11: "double"}.get(compute, xt)
    xin, nout = ("xc", "nc") if compute else ("x", "n")
    cast_in = f"xc = Cast <to = {compute}> (x)" if compute else "unused_in = Identity(x)"
    cast_out = f"nc = Cast <to = {xn}> (n)" if compute else "unused_out = Identity(scale)"
    # how the scale reaches the final Mul: directly, or through a Cast to the compute type (result stays in the compute
    # type), or through a Cast to the input type from a scale kept in the compute type (mixed precision)
    scale_decl, scale_stmt, out_t, sc = f"{xt}[4] scale", "", xt, "scale"
    if scale_via == "cast_to_compute":
        scale_stmt, sc, nout, out_t, cast_out = f"sc = Cast <to = {compute}> (scale)\n   ", "sc", "n", ct, "unused_out = Identity(scale)"
    elif scale_via == "cast_to_target":
        scale_decl, scale_stmt, sc = f"{ct}[4] scale", f"sc = Cast <to = {xn}> (scale)\n   ", "sc"
    order = rng.choice([f"Mul({nout}, {sc})", f"Mul({sc}, {nout})"])
    return f"""<ir_version: 10, opset_import: ["" : 23]>
agraph ({xt}[2,4] x, {scale_decl}) => ({out_t}[2,4] y)
<{ct} eps = {{{eps}}}, {ct} two = {{2.0}}, int64[1] axes = {{-1}}>
{{
   {cast_in}
   sq = Pow({xin}, two)
   ms = ReduceMean <keepdims = 1, noop_with_empty_axes = 0> (sq, axes)
   mse = Add(ms, eps)
   rms = Sqrt(mse)
   rr = Reciprocal(rms)
   n = Mul({xin}, rr)
   {cast_out}
   {scale_stmt}y = {order}
}}"""


def fam_layer_norm(rng: Rng) -> str:
    """LayerNorm subgraph (rules/fusion/_layer_norm stashes epsilon and stash type in check())."""
    xt = rng.choice(["float", "double"])
    eps = rng.choice(["1e-05", "1e-06", "0.01"])
    sq = rng.choice(["dd = Mul(d, d)", "dd = Pow(d, two)"])
    norm = rng.choice(["inv = Reciprocal(sd)\n   n = Mul(d, inv)", "n = Div(d, sd)"])
    bias = rng.chance(0.5)
    tail = "ns = Mul(n, scale)\n   y = Add(ns, bias)" if bias else "y = Mul(n, scale)"
    return f"""<ir_version: 10, opset_import: ["" : 18]>
agraph ({xt}[2,4] x, {xt}[4] scale, {xt}[4] bias) => ({xt}[2,4] y)
<{xt} eps = {{{eps}}}, {xt} two = {{2.0}}, int64[1] axes = {{-1}}>
{{
   mean = ReduceMean <keepdims = 1> (x, axes)
   d = Sub(x, mean)
   {sq}
   var = ReduceMean <keepdims = 1> (dd, axes)
   ve = Add(var, eps)
   sd = Sqrt(ve)
   {norm}
   {tail}
}}"""


def fam_gelu(rng: Rng) -> str:
    """Gelu sub-graphs (ort_fusions/gelu.py, erfgelu.py, bias_gelu.py: replacements live in the com.microsoft domain,
    so a fired rule adds an opset import to the model)."""
    variant = rng.choice(["erf_a", "erf_b", "tanh"])
    n = rng.choice([4, 8])
    pre = "xb = Add(x, bias)" if rng.chance(0.5) else "xb = Identity(x)"
    if variant == "erf_a":      # gelu.py GeluErfFusion: Mul(Mul(x, Erf(x / sqrt2) + 1), 0.5)
        body = "d = Div(xb, sqrt2)\n   e = Erf(d)\n   a = Add(e, one)\n   m = Mul(xb, a)\n   y = Mul(m, half)"
    elif variant == "erf_b":    # erfgelu.py pattern 1: 0.5 * (x * (Erf(x / sqrt2) + 1))
        body = "d = Div(xb, sqrt2)\n   e = Erf(d)\n   a = Add(e, one)\n   m = Mul(xb, a)\n   y = Mul(half, m)"
    else:                       # gelu.py GeluTanhFusion
        body = ("t1 = Pow(xb, three)\n   t2 = Mul(c044, t1)\n   t3 = Add(xb, t2)\n   t4 = Mul(s2pi, t3)\n   t5 = Tanh(t4)\n"
                "   t6 = Add(t5, one)\n   t7 = Mul(half, t6)\n   y = Mul(xb, t7)")
    return f"""<ir_version: 10, opset_import: ["" : {rng.choice([18, 20])}]>
agraph (float[2,{n}] x, float[{n}] bias) => (float[2,{n}] y)
<float sqrt2 = {{{rng.choice(["1.4142135623730951", "1.4142135623730951", "1.4142135623730951", "1.4140625", "1.41421", "1.4142135"])}}}, float one = {{1.0}}, float half = {{0.5}}, float three = {{3.0}}, float c044 = {{0.044715}},
 float s2pi = {{0.7978845608028654}}>
{{
   {pre}
   {body}
}}"""


def fam_slice_split(rng: Rng) -> str:
    """Two Slices of the halves of the last axis (SlicesSplit: the only shipped rule whose pattern has two output nodes),
    plus members each of which trips one condition of its check()."""
    k = rng.choice([2, 3, 4])
    v = _variant(rng, [("ok", 6), ("axes_differ", 1), ("begin_nonzero", 1), ("gap", 1), ("short_end", 1), ("first_axis", 1), ("unknown_dim", 1)])
    order = rng.chance(0.5)
    mid = rng.choice(["", "r = Relu(x)\n   "])
    b0, e0, b1, e1, ax0, ax1 = 0, k, k, 2 * k, rng.choice([-1, 1]), None
    if v == "axes_differ":
        ax0, ax1 = 1, 0
    if v == "begin_nonzero":
        b0 = 1
    if v == "gap":
        b1 = k + 1
    if v == "short_end":
        e1 = 2 * k - 1
    if v == "first_axis":
        ax0 = 0
    ax1 = ax0 if ax1 is None else ax1
    s0 = "a = Slice(x, b0, e0, ax)"
    s1 = "b = Slice(x, b1, e1, axb)"
    first, second = (s0, s1) if order else (s1, s0)
    xdecl = f"float[2,{2 * k}] x" if v != "unknown_dim" else "float[2,N] x"
    return f"""<ir_version: 10, opset_import: ["" : 20]>
agraph ({xdecl}) => (float[?,?] y)
<int64[1] b0 = {{{b0}}}, int64[1] e0 = {{{e0}}}, int64[1] b1 = {{{b1}}}, int64[1] e1 = {{{e1}}}, int64[1] ax = {{{ax0}}}, int64[1] axb = {{{ax1}}}>
{{
   {mid}{first}
   {second}
   y = {rng.choice(["Add(a, b)", "Mul(b, a)", "Sub(a, b)"])}
}}"""


def fam_const_if(rng: Rng) -> str:
    """An If whose condition is a compile-time constant and whose branches own initializers, 0-4 of which share their
    names with main-graph initializers (constant folding inlines the taken branch and has to move / rename them)."""
    names = ["scale", "bias", "offset", "gain"]
    v = _variant(rng, [("clash2", 3), ("clash3", 2), ("clash4", 1), ("clash1", 1), ("clash0", 1), ("dynamic_cond", 1), ("else_taken", 2)])
    n_clash = {"clash0": 0, "clash1": 1, "clash2": 2, "clash3": 3, "clash4": 4}.get(v, 2)
    order = list(names)
    rng.shuffle(order)
    main = order[:rng.randint(max(2, n_clash), 4)]
    branch = main[:n_clash] + [f"only_{i}" for i in range(rng.randint(0, 2))]
    rng.shuffle(branch)
    cond_init = "" if v == "dynamic_cond" else f", bool cond = {{{0 if v == 'else_taken' else 1}}}"
    cond_in = ", bool cond" if v == "dynamic_cond" else ""

    def inits(ns, base):
        return ", ".join(f"float[2] {n} = {{{base + i}.0, {base + i}.5}}" for i, n in enumerate(ns))

    def chain(ns, src, out):
        lines, cur = [], src
        for i, n in enumerate(ns):
            nxt = out if i == len(ns) - 1 else f"{out}_{i}"
            lines.append(f"{nxt} = {rng.choice(['Mul', 'Add', 'Sub'])}({cur}, {n})")
            cur = nxt
        if not ns:
            lines.append(f"{out} = Neg({src})")
        return "\n          ".join(lines)

    then_inits = f"<{inits(branch, 3)}>" if branch else ""
    other = [f"e_{n}" for n in branch[:2]] if rng.chance(0.5) else branch[:2]
    else_inits = f"<{inits(other, 7)}>" if other else ""
    taken_then, taken_else = (branch, other)
    return f"""<ir_version: 10, opset_import: ["" : 20]>
agraph (float[2] x{cond_in}) => (float[2] y)
<{inits(main, 1)}{cond_init}>
{{
   s = Mul(x, {main[0]})
   y0 = If (cond) <
      then_branch = then_g () => (float[2] t_out) {then_inits} {{
          {chain(taken_then, "s", "t_out")}
      }},
      else_branch = else_g () => (float[2] e_out) {else_inits} {{
          {chain(taken_else, "s", "e_out")}
      }}
   >
   y = Add(y0, {main[-1]})
}}"""


def fam_hardswish(rng: Rng) -> str:
    """HardSwish / HardSigmoid sub-graphs (_fuse_hardswish.py): Add 3, Clip 0..6, (Mul x,) Div 6 — with members that miss
    each constant, and the HardSigmoid(alpha=1/6, beta=0.5) * x form."""
    v = _variant(rng, [("swish", 3), ("sigmoid", 2), ("from_hardsigmoid", 2), ("bad_bias", 1), ("bad_max", 1), ("bad_div", 1), ("bad_alpha", 1)])
    bias, cmax, div = ("2.5" if v == "bad_bias" else "3.0"), ("5.0" if v == "bad_max" else "6.0"), ("4.0" if v == "bad_div" else "6.0")
    if v in ("from_hardsigmoid", "bad_alpha"):
        alpha = "0.2" if v == "bad_alpha" else "0.16666667"
        return f"""<ir_version: 10, opset_import: ["" : 20]>
agraph (float[2,4] x) => (float[2,4] y)
{{
   h = HardSigmoid <alpha = {alpha}, beta = 0.5> (x)
   y = {rng.choice(["Mul(h, x)", "Mul(x, h)"])}
}}"""
    mul = "" if v == "sigmoid" else "m = Mul(c, x)\n   "
    last_in = "c" if v == "sigmoid" else "m"
    return f"""<ir_version: 10, opset_import: ["" : 20]>
agraph (float[2,4] x) => (float[2,4] y)
<float three = {{{bias}}}, float zero = {{0.0}}, float six = {{{cmax}}}, float div = {{{div}}}>
{{
   a = Add(x, three)
   c = Clip(a, zero, six)
   {mul}y = Div({last_in}, div)
}}"""


def fam_conv_affine(rng: Rng) -> str:
    """Conv followed by scalar Mul + Add, or scalar Mul + Add followed by a 1x1 Conv (_fuse_conv_affine.py)."""
    v = _variant(rng, [("conv_then_affine", 3), ("affine_then_conv", 3), ("nonscalar_scale", 1), ("no_bias", 1), ("dynamic_scale", 1)])
    sc, off = rng.choice(["2.0", "0.5", "-1.5"]), rng.choice(["1.0", "0.25"])
    scale_decl = "float[2] scale = {2.0, 3.0}" if v == "nonscalar_scale" else f"float scale = {{{sc}}}"
    inits = [f"float[2,2,1,1] W = {{{_floats(rng, 4)}}}", scale_decl, f"float offset = {{{off}}}"]
    inputs = ["float[1,2,4,4] x"]
    conv_in = "x, W, B"
    if v == "no_bias":
        conv_in = "x, W"
    else:
        inits.append(f"float[2] B = {{{_floats(rng, 2)}}}")
    if v == "dynamic_scale":
        inits = [i for i in inits if not i.startswith("float scale")]
        inputs.append("float scale")
    if v == "affine_then_conv":
        body = f"m = Mul(x, scale)\n   a = Add(m, offset)\n   y = Conv <kernel_shape = [1, 1], pads = [0, 0, 0, 0]> (a, W, B)"
    else:
        body = f"c = Conv <kernel_shape = [1, 1]> ({conv_in})\n   m = Mul(c, scale)\n   y = Add(m, offset)"
    return f"""<ir_version: 10, opset_import: ["" : 20]>
agraph ({", ".join(inputs)}) => (float[1,2,?,?] y)
<{", ".join(inits)}>
{{
   {body}
}}"""


def fam_expand_binary(rng: Rng) -> str:
    """Expand feeding a broadcasting binary op (_remove_expand_before_binary_op.py): redundant and necessary expands."""
    v = _variant(rng, [("redundant", 3), ("needed", 2), ("second_operand", 2), ("symbolic", 1), ("dynamic_shape", 1)])
    op = rng.choice(["Add", "Mul", "Sub", "Div", "Greater"])
    out_t = "bool" if op == "Greater" else "float"
    xdecl, ydecl, shp = "float[1,4] x", "float[3,4] y", "3, 4"
    if v == "needed":
        ydecl = "float[1,4] y"
    if v == "symbolic":
        xdecl, ydecl = "float[1,N] x", "float[3,N] y"
    shape_init = "" if v == "dynamic_shape" else f"<int64[2] shape = {{{shp}}}>"
    extra_in = ", int64[2] shape" if v == "dynamic_shape" else ""
    args = "y, e" if v == "second_operand" else "e, y"
    return f"""<ir_version: 10, opset_import: ["" : 20]>
agraph ({xdecl}, {ydecl}{extra_in}) => ({out_t}[?,?] z)
{shape_init}
{{
   e = Expand(x, shape)
   z = {op}({args})
}}"""


def fam_reshape_matmul(rng: Rng) -> str:
    """Reshape -> MatMul -> Reshape where the reshapes only add/remove broadcast dims (_broadcast_to_matmul.py), incl.
    1-D (vector) operands on either side, which MatMul treats specially."""
    v = _variant(rng, [("two_reshapes", 3), ("one_reshape", 2), ("vec_second", 2), ("vec_first", 2), ("col_second", 1), ("wrong_final", 1), ("symbolic", 1)])
    if v in ("vec_second", "vec_first", "col_second"):
        if v == "vec_second":     # [2,3,4,5] x [5] -> [2,3,4]
            a_decl, b_decl, sa, sb, sc = "float[2,3,4,5] a", "float[5] b", "2, 3, 4, 5", "5", "2, 3, 4"
        elif v == "vec_first":    # [4] x [2,3,4,5] -> [2,3,5]
            a_decl, b_decl, sa, sb, sc = "float[4] a", "float[2,3,4,5] b", "4", "2, 3, 4, 5", "2, 3, 5"
        else:                     # [2,3,4,5] x [5,1] -> reshaped to [2,3,4]: the reshape is needed
            a_decl, b_decl, sa, sb, sc = "float[2,3,4,5] a", "float[5,1] b", "2, 3, 4, 5", "5, 1", "2, 3, 4"
        n = lambda t: len(t.split(","))
        return f"""<ir_version: 10, opset_import: ["" : 20]>
agraph ({a_decl}, {b_decl}) => (float[?,?,?] y)
<int64[{n(sa)}] sa = {{{sa}}}, int64[{n(sb)}] sb = {{{sb}}}, int64[{n(sc)}] sc = {{{sc}}}>
{{
   ra = Reshape(a, sa)
   rb = Reshape(b, sb)
   m = MatMul(ra, rb)
   y = Reshape(m, sc)
}}"""
    a_decl = "float[2,3,4] a" if v != "symbolic" else "float[B,3,4] a"
    final = "2, 3, 5" if v != "wrong_final" else "6, 5"
    if v == "one_reshape":
        return f"""<ir_version: 10, opset_import: ["" : 20]>
agraph ({a_decl}, float[4,5] b) => (float[?,?,?] y)
<int64[3] sa = {{2, 3, 4}}, int64[3] sc = {{{final}}}>
{{
   ra = Reshape(a, sa)
   m = MatMul(ra, b)
   y = Reshape(m, sc)
}}"""
    return f"""<ir_version: 10, opset_import: ["" : 20]>
agraph ({a_decl}, float[4,5] b) => (float[?,?,?] y)
<int64[3] sa = {{2, 3, 4}}, int64[3] sb = {{1, 4, 5}}, int64[{len(final.split(","))}] sc = {{{final}}}>
{{
   ra = Reshape(a, sa)
   rb = Reshape(b, sb)
   m = MatMul(ra, rb)
   y = Reshape(m, sc)
}}"""


def fam_scatter_nd(rng: Rng) -> str:
    """ScatterND that overwrites the whole first dimension (_redundant_scatter_nd.py) and members that do not."""
    v = _variant(rng, [("static_full", 3), ("static_partial", 2), ("shape_mismatch", 1), ("dynamic_indices", 1)])
    n = rng.choice([2, 3])
    idx = ", ".join(str(i) for i in range(n)) if v != "static_partial" else ", ".join(str(i) for i in range(n - 1))
    nidx = n if v != "static_partial" else n - 1
    upd = f"float[{n},4] updates" if v != "shape_mismatch" else f"float[{n},1] updates"
    upd = upd if v != "static_partial" else f"float[{nidx},4] updates"
    idx_init = "" if v == "dynamic_indices" else f"<int64[{nidx},1] indices = {{{idx}}}>"
    idx_in = f", int64[{n},1] indices" if v == "dynamic_indices" else ""
    return f"""<ir_version: 10, opset_import: ["" : 20]>
agraph (float[{n},4] data, {upd}{idx_in}) => (float[{n},4] y)
{idx_init}
{{
   s = ScatterND(data, indices, updates)
   y = Relu(s)
}}"""


def fam_user_rules(rng: Rng) -> str:
    """Models for the user-written rules of dsim/c14/userrules.py: each member contains the sub-graphs of one or several of
    those rules, with varied shapes and constants; some end in a sub-graph on which a user check() or rewrite() raises, after
    other rules of the same set have already fired in the traversal."""
    a, b = rng.choice([(4, 8), (2, 6), (3, 3), (8, 2)])
    c = rng.choice(["2.0", "0.5", "-1.5", "3.0"])
    d = rng.choice(["0.25", "4.0", "-2.0", "1.5"])
    v = _variant(rng, [("addmul", 2), ("addmul_twice", 2), ("addtr", 1), ("sub", 2), ("scale", 2), ("sincos", 1), ("absor", 1),
                      ("pow2", 1), ("pow13_tail", 2), ("sqrt_rank3_tail", 2), ("combo", 3), ("combo_pow13", 2)])
    shp = f"float[{a},{b}]"
    ins = [f"{shp} x", f"{shp} y", f"{shp} z"]
    inits, body, outs = [], [], []

    def part(name):
        k = len(outs)
        if name == "addmul":
            body.extend([f"s{k} = Add(x, y)", f"o{k} = Mul(s{k}, z)"])
        elif name == "addmul2":
            body.extend([f"s{k} = Add(z, x)", f"o{k} = Mul(s{k}, y)"])
        elif name == "sub":
            body.extend([f"n{k} = Neg(y)", f"o{k} = Add({'n%d, x' % k if rng.chance(0.5) else 'x, n%d' % k})"])
        elif name == "scale":
            inits.extend([f"float c{k} = {{{c}}}", f"float d{k} = {{{d}}}"])
            body.extend([f"m{k} = Mul({'x, c%d' % k if rng.chance(0.5) else 'c%d, x' % k})", f"o{k} = Mul(m{k}, d{k})"])
        elif name == "absor":
            body.extend([f"r{k} = {rng.choice(['Relu', 'Abs'])}(x)", f"o{k} = Abs(r{k})"])
        elif name == "pow2":
            inits.append(f"float e{k} = {{2.0}}")
            body.append(f"o{k} = Pow(x, e{k})")
        elif name == "pow13":
            inits.append(f"float e{k} = {{13.0}}")
            body.append(f"o{k} = Pow(y, e{k})")
        outs.append(f"{shp} o{k}")

    if v == "addtr":
        return f"""<ir_version: 10, opset_import: ["" : 20]>
agraph ({shp} x, {shp} y) => (float[{b},{a}] out)
{{
   s = Add(x, y)
   out = Transpose <perm = [1, 0]> (s)
}}"""
    if v == "sincos":
        return f"""<ir_version: 10, opset_import: ["" : 20]>
agraph ({shp} x) => ({shp} s, {shp} c)
{{
   s = Sin(x)
   c = Cos(x)
}}"""
    if v == "sqrt_rank3_tail":
        return f"""<ir_version: 10, opset_import: ["" : 20]>
agraph (float[2,{a},{b}] x, float[2,{a},{b}] y, float[2,{a},{b}] z) => (float[2,{a},{b}] o, float[2,{a},{b}] p)
{{
   s = Add(x, y)
   p = Mul(s, z)
   q = Sqrt(x)
   o = Sqrt(q)
}}"""
    for name in {"addmul": ["addmul"], "addmul_twice": ["addmul", "addmul2"], "sub": ["sub"], "scale": ["scale"], "absor": ["absor"],
                 "pow2": ["pow2"], "pow13_tail": ["addmul", "pow13"], "combo": ["addmul", "sub", "scale", "absor", "pow2"],
                 "combo_pow13": ["scale", "addmul", "sub", "pow13"]}[v]:
        part(name)
    init_txt = f"<{', '.join(inits)}>\n" if inits else ""
    return f"""<ir_version: 10, opset_import: ["" : 20]>
agraph ({", ".join(ins)}) => ({", ".join(outs)})
{init_txt}{{
   {chr(10).join('   ' + ln for ln in body).strip()}
}}"""


def fam_local_functions(rng: Rng) -> str:
    """Models with 2-4 model-local functions called from the main graph (for the inliner, function removal and the opset-import
    merging they do): functions whose bodies use operators of custom domains that the model itself does not import, nested
    calls (a function calling another), the same function called twice, overloads, functions in two domains, an unused one."""
    v = _variant(rng, [("two_domains_new", 3), ("three_domains_new", 2), ("nested", 2), ("called_twice", 1), ("unused_fn", 1),
                      ("model_imports_all", 1), ("two_function_domains", 2), ("std_only", 1)])
    n = 4
    doms = ["custom.alpha", "custom.beta", "custom.gamma", "custom.delta", "zeta.ops", "a.b"]
    rng.shuffle(doms)
    k = {"two_domains_new": 2, "three_domains_new": 3, "nested": 3, "called_twice": 2, "unused_fn": 3, "model_imports_all": 2,
         "two_function_domains": 3, "std_only": 2}[v]
    fdom = ["local"] * k
    if v == "two_function_domains":
        fdom = ["local", "other.local", "local"]
    model_imports = ['"" : 18'] + [f'"{d}" : 1' for d in sorted(set(fdom))]
    if v == "model_imports_all":
        model_imports += [f'"{d}" : 1' for d in doms[:k]]
    fns, calls = [], []
    prev = "x"
    for i in range(k):
        dom = doms[i]
        if v == "std_only":
            body = f"q = {rng.choice(['Neg', 'Abs', 'Relu'])}(t)"
            imp = '"" : 18'
        else:
            body = f"q = {dom}.Custom{i}(t)"
            imp = f'"" : 18, "{dom}" : 1'
        extra = ""
        if v == "nested" and i >= 1:
            # F_i calls F_{i-1}
            body = f"u = {fdom[i - 1]}.F{i - 1}(t)\n   q = {dom}.Custom{i}(u)"
            imp += f', "{fdom[i - 1]}" : 1'
        fns.append(f"""<opset_import: [{imp}], domain: "{fdom[i]}">
F{i} (p) => (q)
{{
   t = {rng.choice(['Relu', 'Identity', 'Abs'])}(p)
   {body}
}}""")
    order = list(range(k))
    if v == "unused_fn":
        order = order[:-1]
    if v == "nested":
        order = [k - 1]
    if v == "called_twice":
        order = order + [order[0]]
    rng.shuffle(order) if v not in ("nested",) else None
    lines = []
    for j, i in enumerate(order):
        out = f"v{j}" if j < len(order) - 1 else "y"
        lines.append(f"{out} = {fdom[i]}.F{i}({prev})")
        prev = out
    return f"""<ir_version: 9, opset_import: [{", ".join(model_imports)}]>
agraph (float[{n}] x) => (float[{n}] y)
{{
   {chr(10).join('   ' + ln for ln in lines).strip()}
}}
{chr(10).join(fns)}"""


OPSET_TWINS = [
    # (operator, opset version, input declaration, initializers, statement producing g): the same operator in the form each
    # opset version gives it (attribute became input, new attribute, ...), declared version next to version
    ("ReduceMean", 17, "float[2,3,4] x", "", "g = ReduceMean <axes = [1], keepdims = 0> (x)"),
    ("ReduceMean", 18, "float[2,3,4] x", "int64[1] axes = {1}", "g = ReduceMean <keepdims = 0> (x, axes)"),
    ("ReduceSum", 11, "float[2,3,4] x", "", "g = ReduceSum <axes = [2], keepdims = 0> (x)"),
    ("ReduceSum", 13, "float[2,3,4] x", "int64[1] axes = {2}", "g = ReduceSum <keepdims = 0> (x, axes)"),
    ("Squeeze", 11, "float[2,1,4] x", "", "g = Squeeze <axes = [1]> (x)"),
    ("Squeeze", 13, "float[2,1,4] x", "int64[1] axes = {1}", "g = Squeeze (x, axes)"),
    ("Unsqueeze", 11, "float[4] x", "", "g = Unsqueeze <axes = [0]> (x)"),
    ("Unsqueeze", 13, "float[4] x", "int64[1] axes = {0}", "g = Unsqueeze (x, axes)"),
    ("Split", 11, "float[4,3] x", "", "g, g2 = Split <axis = 0, split = [1, 3]> (x)"),
    ("Split", 13, "float[4,3] x", "int64[2] split = {1, 3}", "g, g2 = Split <axis = 0> (x, split)"),
    ("Split", 18, "float[4,3] x", "", "g, g2 = Split <axis = 0, num_outputs = 2> (x)"),
    ("Pad", 10, "float[2,3] x", "", "g = Pad <pads = [0, 1, 0, 1]> (x)"),
    ("Pad", 13, "float[2,3] x", "int64[4] pads = {0, 1, 0, 1}", "g = Pad (x, pads)"),
    ("Slice", 9, "float[4,6] x", "", "g = Slice <axes = [1], starts = [1], ends = [4]> (x)"),
    ("Slice", 13, "float[4,6] x", "int64[1] st = {1}, int64[1] en = {4}, int64[1] ax = {1}", "g = Slice (x, st, en, ax)"),
    ("TopK", 9, "float[3,5] x", "", "g, g2 = TopK <k = 2> (x)"),
    ("TopK", 11, "float[3,5] x", "int64[1] kk = {2}", "g, g2 = TopK (x, kk)"),
    ("ReduceMax", 13, "float[2,3,4] x", "", "g = ReduceMax <axes = [0], keepdims = 0> (x)"),
    ("ReduceMax", 18, "float[2,3,4] x", "int64[1] axes = {0}", "g = ReduceMax <keepdims = 0> (x, axes)"),
    ("ReduceMax", 20, "float[2,3,4] x", "int64[1] axes = {0}", "g = ReduceMax <keepdims = 0> (x, axes)"),
]


def fam_opset_twins(rng: Rng) -> str:
    """The same operator in the form each opset version gives it, in models that declare that version: node-level shape
    inference and the folder look operators up by (domain, name, version), and most nodes carry no version of their own.
    The result's shape feeds Shape -> Reshape, so whether shape inference worked decides what folds."""
    names = [f"{o}@{v}" for o, v, *_ in OPSET_TWINS]
    pick = _variant(rng, [(n, 1) for n in names])
    op, ver, xdecl, init, stmt = OPSET_TWINS[names.index(pick)]
    k = rng.choice([24, 48, 12])
    inits = f"<{init}>\n" if init else ""
    return f"""<ir_version: 8, opset_import: ["" : {ver}]>
agraph ({xdecl}, float[{k}] z) => (float[?,?] out, float[?,?] h)
{inits}{{
   {stmt}
   h = Relu(g)
   s = Shape(h)
   out = Reshape(z, s)
}}"""


def fam_random_ops(rng: Rng) -> str:
    """Operators that draw random numbers, applied to constants: the folder must leave them alone (a folded draw differs from
    process to process). One member per ONNX random operator, with and without a seed attribute."""
    v = _variant(rng, [("bernoulli", 2), ("bernoulli_seed", 1), ("random_normal_like", 1), ("random_uniform_like", 1), ("random_normal", 1),
                      ("random_uniform", 1), ("multinomial", 1), ("bernoulli_dtype", 1)])
    stmt = {
        "bernoulli": "b = Bernoulli(p)",
        "bernoulli_seed": "b = Bernoulli <seed = 7.0> (p)",
        "bernoulli_dtype": "b0 = Bernoulli <dtype = 11> (p)\n   b = Cast <to = 1> (b0)",
        "random_normal_like": "b = RandomNormalLike(p)",
        "random_uniform_like": "b = RandomUniformLike <high = 2.0> (p)",
        "random_normal": "b = RandomNormal <shape = [4], dtype = 1> ()",
        "random_uniform": "b = RandomUniform <shape = [4], dtype = 1> ()",
        "multinomial": "m0 = Multinomial <sample_size = 4> (p2)\n   m1 = Cast <to = 1> (m0)\n   b = Reshape(m1, shp)",
    }[v]
    return f"""<ir_version: 9, opset_import: ["" : {rng.choice([15, 18, 20, 22])}]>
agraph (float[4] x) => (float[4] y)
<float[4] p = {{0.5, 0.25, 0.75, {rng.choice(["0.5", "0.1"])}}}, float[1,4] p2 = {{0.1, 0.2, 0.3, 0.4}}, int64[1] shp = {{4}}, float[4] k = {{1.0, 2.0, 3.0, 4.0}}>
{{
   {stmt}
   c = Mul(k, k)
   d = Add(b, c)
   y = Add(x, d)
}}"""


FAMILIES = {
    "random_ops": fam_random_ops,
    "opset_twins": fam_opset_twins,
    "local_functions": fam_local_functions,
    "user_rules": fam_user_rules,
    "pad_conv": fam_pad_conv, "pad_conv_tail": fam_pad_conv_fail_tail, "reshape_reshape": fam_reshape_reshape,
    "flatten": fam_flatten, "cast_cast": fam_cast_cast, "transpose": fam_transpose, "minmax": fam_minmax,
    "clip_relu": fam_clip_relu, "unsqueeze": fam_unsqueeze, "bn_conv": fam_batchnorm_conv, "bn_gemm": fam_batchnorm_gemm,
    "matmul_add": fam_matmul_add, "slice": fam_slice, "expand": fam_expand, "cast_cos": fam_cast_constant_of_shape,
    "mat_reshape": fam_materialize_reshape, "fold_chain": fam_fold_chain,
    "rms_norm": fam_rms_norm, "layer_norm": fam_layer_norm, "gelu": fam_gelu, "slice_split": fam_slice_split, "const_if": fam_const_if, "hardswish": fam_hardswish, "conv_affine": fam_conv_affine,
    "expand_binary": fam_expand_binary, "reshape_matmul": fam_reshape_matmul, "scatter_nd": fam_scatter_nd,
}


def op_shape_chain(rng: Rng, opname: str) -> str | None:
    """`g = X(...); s = Shape(g); out = Reshape(z, s)`: whether Shape(g) folds depends on node-level shape inference finding
    X's schema. For the operators some scripts use as helper names."""
    a, b = rng.choice([(2, 8), (4, 4), (2, 6)])
    sig = {
        "Gelu": (20, f"float[{a},{b}] x", "g = Gelu(x)", ""),
        "Mish": (18, f"float[{a},{b}] x", "g = Mish(x)", ""),
        "LayerNormalization": (17, f"float[{a},{b}] x", "g = LayerNormalization(x, scale)", f"float[{b}] scale = {{{_floats(rng, b)}}}"),
        "RMSNormalization": (23, f"float[{a},{b}] x", "g = RMSNormalization(x, scale)", f"float[{b}] scale = {{{_floats(rng, b)}}}"),
        "BitwiseAnd": (18, f"int32[{a},{b}] x", "g = BitwiseAnd(x, x)", ""),
    }.get(opname)
    if sig is None:
        return None
    ver, xdecl, stmt, init = sig
    inits = f"<{init}>" if init else ""
    return f"""<ir_version: 10, opset_import: ["" : {max(ver, rng.choice([ver, 21, 23]))}]>
agraph ({xdecl}, float[{a * b}] z) => (float[?,?] out)
{inits}
{{
   {stmt}
   s = Shape(g)
   out = Reshape(z, s)
}}"""


# families whose members walk through declared variants: a batch takes one member per variant (capped), so that every
# special path of the rule's check() is in every batch; other families vary only in parameters and get 3 members
N_VARIANTS = {"random_ops": 8, "minmax": 4, "clip_relu": 4, "opset_twins": 20, "local_functions": 8, "user_rules": 12, "hardswish": 7, "conv_affine": 5, "expand_binary": 5, "reshape_matmul": 7, "scatter_nd": 4, "rms_norm": 4, "pad_conv": 12, "reshape_reshape": 8, "fold_chain": 10, "slice_split": 7, "const_if": 7}


def members_per_batch(family: str, default: int, cap: int = 10) -> int:
    return min(cap, N_VARIANTS[family]) if family in N_VARIANTS else default


def gen_model(rng: Rng, family: str | None = None, member: int | None = None, offset: int = 0) -> tuple[str, str]:
    global _MEMBER
    fam = family or rng.choice(sorted(FAMILIES))
    _MEMBER = None if member is None else (member, offset)
    try:
        text = FAMILIES[fam](rng)
    finally:
        _MEMBER = None
    # pad_conv_tail is the same rule's family as pad_conv (a later rule fails in the same traversal)
    return "gen:" + {"pad_conv_tail": "pad_conv"}.get(fam, fam), text
