"""Seeded family of attention models for C14 (the ORT fusion chain SDPA -> MHA -> bias / scale -> Attention stashes, per
match, the mask, whether it has to be broadcast, the scale, head sizes ... on module-level rule objects). Members are
onnxscript sources of plain-ONNX multi-head attention over (B, S, D) inputs plus the input/output types to build the model
with; they share structure and value names and differ in what the rules' check() computes: mask absent / padding mask /
full mask / rank-2 mask / per-head mask, how the scores are scaled, head count and size, projection biases, symbolic or
static dims. Output is literal data (source text + type expressions) for the 'script' model pool."""
from __future__ import annotations

from dsim.prng import Rng

MASKS = ["none", "full_B1SS", "padding_B11S", "rank2_SS", "rank2_1S", "perhead_BHSS", "full_11SS", "bad_rank3"]
SCALES = ["div_sqrt", "mul_rsqrt", "pre_scale_qk", "custom", "none"]
N_VARIANTS = len(MASKS)


def gen(rng: Rng, member: int | None = None, offset: int = 0) -> dict:
    if member is None:
        mask = rng.choice(MASKS)
    else:
        mask = MASKS[(member + offset) % len(MASKS)]
    scale = rng.choice(SCALES)
    H, Dh = rng.choice([(4, 8), (2, 16), (8, 4), (2, 8)])
    D = H * Dh
    static = rng.chance(0.3)
    B, S = ("2", "6") if static else ('"B"', '"S"')
    bias = rng.chance(0.35)
    sq = Dh ** 0.5
    lines = [
        "import numpy as np",
        "import onnx_ir as ir",
        "from onnxscript import FLOAT, script",
        "from onnxscript import opset18 as op",
        "",
        f"H, Dh, D = {H}, {Dh}, {D}",
        "",
        "@script()",
        f"def attention(x, wq, wk, wv{', bq, bk, bv' if bias else ''}{', mask' if mask != 'none' else ''}):",
        "    shape4 = op.Constant(value_ints=[0, 0, H, Dh])",
    ]
    for n in "qkv":
        proj = f"op.MatMul(x, w{n})"
        if bias:
            proj = f"op.Add({proj}, b{n})"
        lines.append(f"    {n} = op.Transpose(op.Reshape({proj}, shape4), perm=[0, 2, 1, 3])")
    lines.append("    kt = op.Transpose(k, perm=[0, 1, 3, 2])")
    if scale == "div_sqrt":
        lines.append(f"    scores = op.Div(op.MatMul(q, kt), op.Constant(value_float={sq!r}))")
    elif scale == "mul_rsqrt":
        lines.append(f"    scores = op.Mul(op.MatMul(q, kt), op.Constant(value_float={1.0 / sq!r}))")
    elif scale == "pre_scale_qk":
        c = repr(1.0 / (sq ** 0.5))
        lines.append(f"    scores = op.MatMul(op.Mul(q, op.Constant(value_float={c})), op.Mul(kt, op.Constant(value_float={c})))")
    elif scale == "custom":
        lines.append(f"    scores = op.Mul(op.MatMul(q, kt), op.Constant(value_float={rng.choice([0.5, 0.125, 0.3])!r}))")
    else:
        lines.append("    scores = op.MatMul(q, kt)")
    if mask != "none":
        lines.append("    scores = op.Add(scores, mask)")
    lines += [
        "    weights = op.Softmax(scores, axis=-1)",
        "    out = op.Transpose(op.MatMul(weights, v), perm=[0, 2, 1, 3])",
        "    return op.Reshape(out, op.Constant(value_ints=[0, 0, D]))",
        "",
    ]
    mask_type = {"full_B1SS": f"FLOAT[{B}, 1, {S}, {S}]", "padding_B11S": f"FLOAT[{B}, 1, 1, {S}]", "rank2_SS": f"FLOAT[{S}, {S}]",
                 "rank2_1S": f"FLOAT[1, {S}]", "perhead_BHSS": f"FLOAT[{B}, H, {S}, {S}]", "full_11SS": f"FLOAT[1, 1, {S}, {S}]",
                 "bad_rank3": f"FLOAT[1, {S}, {S}]"}.get(mask)
    its = [f"FLOAT[{B}, {S}, D]"] + ["FLOAT[D, D]"] * 3 + (["FLOAT[D]"] * 3 if bias else []) + ([mask_type] if mask_type else [])
    return {"pool": "script", "src": "\n".join(lines), "fn": "attention", "it": "[" + ", ".join(its) + "]",
            "ot": f"[FLOAT[{B}, {S}, D]]", "variant": f"{mask}/{scale}/H{H}xDh{Dh}/{'static' if static else 'symbolic'}{'/bias' if bias else ''}"}
