"""Seeded family of attention models for C14 (the ORT fusion chain SDPA -> MHA -> bias / scale -> Attention stashes, per
match, the mask, whether it has to be broadcast, the scale, head sizes ... on module-level rule objects). Members are
onnxscript sources of plain-ONNX multi-head attention over (B, S, D) inputs plus the input/output types to build the model
with; they share structure and value names and differ in what the rules' check() computes: mask absent / padding mask /
full mask / rank-2 mask / per-head mask, how the scores are scaled, head count and size, projection biases, symbolic or
static dims. Output is literal data (source text + type expressions) for the 'script' model pool."""
from __future__ import annotations

from dsim.prng import Rng

MASKS = ["none", "full_B1SS", "padding_B11S", "rank2_SS", "rank2_1S", "perhead_BHSS", "full_11SS", "bad_rank3"]
SCALES = ["div_sqrt", "mul_rsqrt", "pre_scale_qk", "custom", "none"]
N_VARIANTS = len(MASKS)


def gen(rng: Rng, member: int | None = None, offset: int = 0) -> dict:
    if member is None:
        mask = rng.choice(MASKS)
    else:
        mask = MASKS[(member + offset) % len(MASKS)]
    scale = rng.choice(SCALES)
    H, Dh = rng.choice([(4, 8), (2, 16), (8, 4), (2, 8)])
    D = H * Dh
    static = rng.chance(0.3)
    B, S = ("2", "6") if static else ('"B"', '"S"')
    bias = rng.chance(0.35)
    sq = Dh ** 0.5
    lines = [
        "import numpy as np",
        "import onnx_ir as ir",
        "from onnxscript import FLOAT, script",
        "from onnxscript import opset18 as op",
        "",
        f"H, Dh, D = {H}, {Dh}, {D}",
        "",
        "@script()",
        f"def attention(x, wq, wk, wv{', bq, bk, bv' if bias else ''}{', mask' if mask != 'none' else ''}):",
        "    shape4 = op.Constant(value_ints=[0, 0, H, Dh])",
    ]
    for n in "qkv":
        proj = f"op.MatMul(x, w{n})"
        if bias:
            proj = f"op.Add({proj}, b{n})"
        lines.append(f"    {n} = op.Transpose(op.Reshape({proj}, shape4), perm=[0, 2, 1, 3])")
    lines.append("    kt = op.Transpose(k, perm=[0, 1, 3, 2])")
    if scale == "div_sqrt":
        lines.append(f"    scores = op.Div(op.MatMul(q, kt), op.Constant(value_float={sq!r}))")
    elif scale == "mul_rsqrt":
        lines.append(f"    scores = op.Mul(op.MatMul(q, kt), op.Constant(value_float={1.0 / sq!r}))")
    elif scale == "pre_scale_qk":
        c = repr(1.0 / (sq ** 0.5))
        lines.append(f"    scores = op.MatMul(op.Mul(q, op.Constant(value_float={c})), op.Mul(kt, op.Constant(value_float={c})))")
    elif scale == "custom":
        lines.append(f"    scores = op.Mul(op.MatMul(q, kt), op.Constant(value_float={rng.choice([0.5, 0.125, 0.3])!r}))")
    else:
        lines.append("    scores = op.MatMul(q, kt)")
    if mask != "none":
        lines.append("    scores = op.Add(scores, mask)")
    lines += [
        "    weights = op.Softmax(scores, axis=-1)",
        "    out = op.Transpose(op.MatMul(weights, v), perm=[0, 2, 1, 3])",
        "    return op.Reshape(out, op.Constant(value_ints=[0, 0, D]))",
        "",
    ]
    mask_type = {"full_B1SS": f"FLOAT[{B}, 1, {S}, {S}]", "padding_B11S": f"FLOAT[{B}, 1, 1, {S}]", "rank2_SS": f"FLOAT[{S}, {S}]",
                 "rank2_1S": f"FLOAT[1, {S}]", "perhead_BHSS": f"FLOAT[{B}, H, {S}, {S}]", "full_11SS": f"FLOAT[1, 1, {S}, {S}]",
                 "bad_rank3": f"FLOAT[1, {S}, {S}]"}.get(mask)
    its = [f"FLOAT[{B}, {S}, D]"] + ["FLOAT[D, D]"] * 3 + (["FLOAT[D]"] * 3 if bias else []) + ([mask_type] if mask_type else [])
    return {"pool": "script", "src": "\n".join(lines), "fn": "attention", "it": "[" + ", ".join(its) + "]",
            "ot": f"[FLOAT[{B}, {S}, D]]", "variant": f"{mask}/{scale}/H{H}xDh{Dh}/{'static' if static else 'symbolic'}{'/bias' if bias else ''}"}


GQA_ATTRS = [[], ["scale=0.125"], ["softcap=30.0"], ["scale=0.25", "softcap=20.0"], ["scale=0.5", "softcap=10.0", "qk_matmul_output_mode=0"],
             ["qk_matmul_output_mode=0", "scale=0.125"], ["is_causal=0", "scale=0.125", "softcap=50.0"], ["scale=1.0", "is_causal=0"]]
GQA_N_VARIANTS = len(GQA_ATTRS)


def gen_gqa(rng: Rng, member: int | None = None, offset: int = 0) -> dict:
    """Grouped-query attention in plain ONNX opset 23 (key/value caches concatenated, expanded over the group dimension and
    reshaped to the query's head count, then Attention) — the pattern of rules/fusion/_gqa.py — with the Attention node
    carrying 0..3 attributes in varied order, varied head counts, with and without a mask."""
    attrs = GQA_ATTRS[(member + offset) % len(GQA_ATTRS)] if member is not None else rng.choice(GQA_ATTRS)
    attrs = list(attrs)
    if rng.chance(0.5):
        attrs.reverse()
    Hn, Hkv, Dh = rng.choice([(8, 4, 16), (4, 2, 8), (8, 2, 8), (6, 3, 8)])
    G = Hn // Hkv
    B, S, P = rng.choice([(2, 4, 8), (1, 3, 5), (2, 2, 2)])
    mask = rng.chance(0.3)
    kw = "".join(", " + a for a in attrs)
    lines = [
        "import onnxscript",
        "from onnxscript import FLOAT, script",
        'op = onnxscript.values.Opset("", 23)',
        f"H = [{Hn}]", f"Hkv = [{Hkv}]", f"D = [{Dh}]", f"G = [{G}]", "",
        "@script(ir_version=10)",
        f"def gqa(query_BHSD, key_BHkvSD, value_BHkvSD, past_key_BHkvPD, past_value_BHkvPD{', mask' if mask else ''}):",
        "    present_key_BHkvStD = op.Concat(past_key_BHkvPD, key_BHkvSD, axis=-2)",
        "    present_key_BHkv1StD = op.Unsqueeze(present_key_BHkvStD, 2)",
        "    B = op.Shape(query_BHSD, start=0, end=1)",
        "    T = op.Shape(present_key_BHkvStD, start=2, end=3)",
        "    expand_shape = op.Concat(B, Hkv, G, T, D, axis=0)",
        "    present_key_BHkvGStD = op.Expand(present_key_BHkv1StD, expand_shape)",
        "    reshape_shape = op.Concat(B, H, T, D, axis=0)",
        "    present_key_BHStD = op.Reshape(present_key_BHkvGStD, reshape_shape)",
        "    present_value_BHkvStD = op.Concat(past_value_BHkvPD, value_BHkvSD, axis=-2)",
        "    present_value_BHkv1StD = op.Unsqueeze(present_value_BHkvStD, 2)",
        "    present_value_BHkvGStD = op.Expand(present_value_BHkv1StD, expand_shape)",
        "    present_value_BHStD = op.Reshape(present_value_BHkvGStD, reshape_shape)",
        f"    return op.Attention(query_BHSD, present_key_BHStD, present_value_BHStD{', mask' if mask else ''}{kw})",
        "",
    ]
    its = [f"FLOAT[{B}, {Hn}, {S}, {Dh}]", f"FLOAT[{B}, {Hkv}, {S}, {Dh}]", f"FLOAT[{B}, {Hkv}, {S}, {Dh}]",
           f"FLOAT[{B}, {Hkv}, {P}, {Dh}]", f"FLOAT[{B}, {Hkv}, {P}, {Dh}]"] + ([f"FLOAT[{S}, {S + P}]"] if mask else [])
    return {"pool": "script", "src": "\n".join(lines), "fn": "gqa", "it": "[" + ", ".join(its) + "]",
            "ot": f"[FLOAT[{B}, {Hn}, {S}, {Dh}]]", "variant": f"attrs={attrs}/H{Hn}/Hkv{Hkv}/mask={mask}"}
