"""Target pools for C14.  Everything returned is literal data (source text, ONNX text,
or a path inside the installed onnx package) so that run specs are self-contained."""
from __future__ import annotations

import ast
import glob
import os

from dsim.common import jdump, sha
from dsim.prng import Rng
from dsim.c14 import genscripts


def with_id(op: dict) -> dict:
    """Op identity = everything that determines the expected result (not faults / reuse / counting)."""
    if str(op.get("rules", "")).startswith("user:") and "rules_src" not in op:
        from dsim.c14 import userrules

        op["rules_src"] = userrules.SRC   # the rules travel with the operation (replays do not depend on this file)
    core = {k: v for k, v in op.items() if k not in ("fault", "reuse", "count_calls", "id", "family", "shared_filename", "mp_first", "mp_kwargs", "member")}
    op["id"] = sha(jdump(core).encode())
    return op


class Pools:
    def __init__(self, repo: str):
        self.repo = repo
        self.scripts_models = self._load_scripts(os.path.join(repo, "tests", "models", "*.py"))
        self.scripts_backend = self._load_scripts(os.path.join(repo, "tests", "onnx_backend_test_code", "*.py"))
        self.texts = self._harvest_texts()
        self.script_models = self._script_models()
        self.ort_script_models = self._ort_script_models()
        self.backend_models = self._backend_models()

    # ---------------------------------------------------------------- scripts
    @staticmethod
    def _load_scripts(pattern: str) -> list[tuple[str, str]]:
        out = []
        for f in sorted(glob.glob(pattern)):
            if os.path.basename(f).startswith("__"):
                continue
            try:
                src = open(f, encoding="utf-8").read()
            except OSError:
                continue
            if "@script" not in src:
                continue
            out.append((os.path.basename(f), src))
        return out

    def _harvest_texts(self) -> list[tuple[str, str]]:
        """ONNX text-format models appearing as string literals in the repository's own tests:
        they are what fires each shipped rewrite rule / version adapter."""
        seen: dict[str, str] = {}
        files = sorted(glob.glob(os.path.join(self.repo, "onnxscript", "**", "*_test.py"), recursive=True))
        for f in files:
            try:
                tree = ast.parse(open(f, encoding="utf-8").read())
            except (SyntaxError, OSError):
                continue
            for n in ast.walk(tree):
                if isinstance(n, ast.Constant) and isinstance(n.value, str):
                    t = n.value
                    if ("agraph" in t or "ir_version" in t) and "{" in t and "=>" in t and len(t) < 20000:
                        seen.setdefault(t, os.path.relpath(f, self.repo))
        out = []
        import onnx_ir as ir
        import logging

        logging.disable(logging.CRITICAL)
        for t, f in sorted(seen.items(), key=lambda kv: (kv[1], kv[0])):
            try:
                ir.from_onnx_text(t)
            except Exception:  # noqa: BLE001 - templated / partial snippets
                continue
            out.append((f, t))
        logging.disable(logging.NOTSET)
        return out

    def _script_models(self) -> list[tuple[str, str, str]]:
        """Module-level @script functions in the rewriter's rule tests: the models (built by translation) on which the
        multi-output fusion rules fire. Returned as (file, function name, file source)."""
        out = []
        pats = ["onnxscript/rewriter/rules/fusion/*_test.py", "onnxscript/rewriter/rules/common/*_test.py"]
        for pat in pats:
            for f in sorted(glob.glob(os.path.join(self.repo, pat))):
                try:
                    src = open(f, encoding="utf-8").read()
                    tree = ast.parse(src)
                except (OSError, SyntaxError):
                    continue
                for node in tree.body:
                    if isinstance(node, ast.FunctionDef) and any("script" in ast.unparse(d) for d in node.decorator_list):
                        out.append((os.path.relpath(f, self.repo), node.name, src))
        return out

    def _ort_script_models(self) -> list[dict]:
        """Models of the ORT fusion tests: module-level @script functions of onnxscript/rewriter/ort_fusions/*_test.py and the
        small rotary-embedding models, each with the input/output types its test passes to to_model_proto (harvested from the
        call sites by AST; `self.X` in those expressions resolves to the test classes' class-level assignments). The source
        kept is the file reduced to its imports, module-level assignments and functions (no test classes)."""
        out = []
        files = sorted(glob.glob(os.path.join(self.repo, "onnxscript/rewriter/ort_fusions/*_test.py")))
        files.append(os.path.join(self.repo, "onnxscript/rewriter/models/_rotary_embedding_models.py"))
        for f in files:
            try:
                tree = ast.parse(open(f, encoding="utf-8").read())
            except (OSError, SyntaxError):
                continue
            keep, names, cls_assigns = [], set(), []
            for node in tree.body:
                if isinstance(node, (ast.Import, ast.ImportFrom, ast.Assign, ast.AnnAssign)):
                    keep.append(node)
                elif isinstance(node, ast.FunctionDef):
                    keep.append(node)
                    if any("script" in ast.unparse(d) for d in node.decorator_list):
                        names.add(node.name)
                elif isinstance(node, ast.ClassDef):
                    cls_assigns += [st for st in node.body if isinstance(st, ast.Assign)]
            if not names:
                continue
            if cls_assigns:
                keep.append(ast.ClassDef(name="self", bases=[], keywords=[], body=cls_assigns, decorator_list=[], type_params=[]))
            try:
                reduced = ast.unparse(ast.fix_missing_locations(ast.Module(body=keep, type_ignores=[])))
            except Exception:  # noqa: BLE001
                continue
            sites = set()
            for n in ast.walk(tree):
                if not isinstance(n, ast.Call) or not isinstance(n.func, ast.Attribute):
                    continue
                fn, pos = None, []
                if n.func.attr == "to_model_proto" and isinstance(n.func.value, ast.Name) and n.func.value.id in names:
                    fn = n.func.value.id
                elif n.func.attr.startswith("_build") and n.args and isinstance(n.args[0], ast.Name) and n.args[0].id in names:
                    fn, pos = n.args[0].id, n.args[1:]
                if fn is None:
                    continue
                kws = {k.arg: ast.unparse(k.value) for k in n.keywords if k.arg in ("input_types", "output_types")}
                if len(pos) >= 1:
                    kws.setdefault("input_types", ast.unparse(pos[0]))
                if len(pos) >= 2:
                    kws.setdefault("output_types", ast.unparse(pos[1]))
                sites.add((fn, kws.get("input_types"), kws.get("output_types")))
            for s in names:
                if not any(x[0] == s for x in sites):
                    sites.add((s, None, None))
            rel = os.path.relpath(f, self.repo)
            for fn, it, ot in sorted(sites, key=str):
                m = {"pool": "script", "src": reduced, "fn": fn, "family": "ortm:" + os.path.basename(rel)}
                if it:
                    m["it"] = it
                if ot:
                    m["ot"] = ot
                out.append(m)
        return out

    @staticmethod
    def _backend_models() -> list[tuple[str, int]]:
        import onnx

        base = os.path.join(os.path.dirname(onnx.__file__), "backend", "test", "data")
        out = []
        for grp in ("node", "simple", "pytorch-operator", "pytorch-converted"):
            for d in sorted(glob.glob(os.path.join(base, grp, "*"))):
                mp = os.path.join(d, "model.onnx")
                if os.path.isfile(mp) and os.path.getsize(mp) < 100_000:
                    n_in = len(glob.glob(os.path.join(d, "test_data_set_0", "input_*.pb")))
                    out.append((os.path.relpath(d, base), n_in))
        return out

    STR_ATTR_VALUES = {"direction": ["forward", "reverse", "bidirectional"], "mode": ["constant", "reflect", "edge", "linear", "nearest", "cubic"],
                       "auto_pad": ["NOTSET", "SAME_UPPER", "SAME_LOWER", "VALID"], "reduction": ["none", "add", "mul", "max", "min"],
                       "coordinate_transformation_mode": ["half_pixel", "align_corners", "asymmetric"], "nearest_mode": ["floor", "ceil"],
                       "padding_mode": ["zeros", "border", "reflection"], "approximate": ["none", "tanh"]}

    def backend_models_of_op(self, op_type: str, rng: Rng, n: int = 2) -> list[dict]:
        """Fully lifted onnx backend node tests of one operator (by test directory name)."""
        import re

        snake = re.sub(r"(?<!^)(?=[A-Z][a-z])", "_", op_type).lower()
        cands = [(p, k) for p, k in self.backend_models if p.startswith("node/test_" + snake) or p.startswith("node/test_" + op_type.lower())]
        out = []
        for p, k in rng.sample(cands, min(n, len(cands))):
            out.append({"pool": "onnx_backend", "path": p, "lift": list(range(k))})
        return out

    def backend_attr_family(self, rng: Rng) -> list[dict] | None:
        """One onnx backend node test, fully lifted (every input an initializer, so its node is constant-foldable), plus
        variants of it that differ in the value of ONE attribute (declared or defaulted in the schema): same operator and
        dtypes, some of them not supported by the reference kernel. Returns model refs tagged with family 'op:<OpType>'."""
        import onnx

        base = os.path.join(os.path.dirname(onnx.__file__), "backend", "test", "data")
        for _ in range(12):
            path, n_in = rng.choice(self.backend_models)
            if not path.startswith("node/") or n_in == 0:
                continue
            try:
                mp = onnx.load(os.path.join(base, path, "model.onnx"))
            except Exception:  # noqa: BLE001
                continue
            if len(mp.graph.node) != 1:
                continue
            node = mp.graph.node[0]
            try:
                schema = onnx.defs.get_schema(node.op_type, mp.opset_import[0].version, node.domain)
            except Exception:  # noqa: BLE001
                continue
            cands = []
            for name, a in schema.attributes.items():
                if a.type == onnx.defs.OpSchema.AttrType.INT:
                    cur = next((x.i for x in node.attribute if x.name == name), None)
                    for v in (0, 1, 2, 16, -1):
                        if v != cur:
                            cands.append({"node": 0, "attr": name, "int": v})
                elif a.type == onnx.defs.OpSchema.AttrType.STRING and name in self.STR_ATTR_VALUES:
                    cur = next((x.s.decode() for x in node.attribute if x.name == name), None)
                    for v in self.STR_ATTR_VALUES[name]:
                        if v != cur:
                            cands.append({"node": 0, "attr": name, "str": v})
            if not cands:
                continue
            fam = "op:" + node.op_type
            lift = list(range(n_in))
            out = [{"pool": "onnx_backend", "path": path, "lift": lift, "family": fam}]
            for mut in rng.sample(cands, min(3, len(cands))):
                out.append({"pool": "onnx_backend", "path": path, "lift": lift, "attr_mut": mut, "family": fam})
            return out
        return None

    # ---------------------------------------------------------------- op construction
    def op_translate(self, rng: Rng, flavour: str | None = None) -> dict:
        flavour = flavour or rng.weighted([("gen", 6), ("models", 3), ("backend", 3), ("bad", 1)])
        op: dict = {"kind": "translate"}
        if flavour == "gen":
            g = genscripts.gen_script(rng.sub("g"), f"g{rng.below(10**6)}")
            op.update(src=g["src"], fns=g["fns"])
            if g.get("oplike"):
                op["family"] = "oplike:" + g["oplike"]
        elif flavour == "models":
            name, src = rng.choice(self.scripts_models)
            op.update(src=src, family=name)
        elif flavour == "backend":
            name, src = rng.choice(self.scripts_backend)
            op.update(src=src, family=name)
        else:
            tag, src = rng.choice(genscripts.BAD_SCRIPTS)
            op.update(src=src, family="bad:" + tag)
        if flavour == "gen" and rng.chance(0.25):
            op["shared_filename"] = True
        r = rng.below(10)
        if r < 3:
            op["repeat"] = rng.randint(1, 3)
        elif (r < 5 or (flavour == "gen" and r < 8)) and flavour != "bad":
            op["repeat"] = 1
            op["mutate"] = True
        return with_id(op)

    def model_ref(self, rng: Rng, family: str | None = None) -> dict:
        kind = rng.weighted([("text", 6), ("backend", 3), ("backend_lift", 3), ("script", 3 if self.script_models else 0)])
        if kind == "script" and family is None:
            f, fn, src = rng.choice(self.script_models)
            return {"pool": "script", "src": src, "fn": fn, "family": "script:" + f}
        if kind == "text" or family is not None:
            cands = [(f, t) for f, t in self.texts if family is None or f == family] or self.texts
            f, t = rng.choice(cands)
            return {"pool": "text", "text": t, "family": f}
        path, n_in = rng.choice(self.backend_models)
        m = {"pool": "onnx_backend", "path": path}
        if kind == "backend_lift" and n_in:
            if rng.chance(0.6):
                m["lift"] = list(range(n_in))
            else:
                m["lift"] = sorted(rng.sample(list(range(n_in)), rng.randint(1, n_in)))
        return m

    def op_optimize(self, rng: Rng, family: str | None = None) -> dict:
        m = self.model_ref(rng, family)
        fam = m.pop("family", None) or m.get("path", "")
        api = rng.weighted([("proto", 4), ("ir", 3), ("fold_pass", 4), ("fold", 2), ("remove_unused", 1), ("inline", 1),
                            ("ir_should_fold", 1)])
        op = {"kind": "optimize", "model": m, "api": api, "family": fam}
        if api in ("proto", "ir") and rng.chance(0.4):
            op["opts"] = rng.choice([{"num_iterations": 1}, {"onnx_shape_inference": False}, {"inline": False},
                                     {"stop_if_no_change": False, "num_iterations": 3}, {"input_size_limit": 8},
                                     {"output_size_limit": 4}])
        if api == "fold_pass" and rng.chance(0.3):
            op["opts"] = rng.choice([{"onnx_shape_inference": False}, {"input_size_limit": 8}, {"output_size_limit": 4}])
        if api == "ir_should_fold":
            op["raise_at"] = rng.randint(1, 4)
        return with_id(op)

    SINGLE_RULES = ["reshape_reshape_rule", "flatten_to_reshape_rule", "cast_cast_rule", "transpose_transpose_rule",
                    "unsqueeze_unsqueeze_rule", "squeeze_reshape_1d_rule", "slice_split_rule", "fuse_pad_into_conv_rule",
                    "materialize_reshape_shape_rule", "min_min_rule", "max_max_rule", "min_max_rule", "max_min_rule",
                    "successive_clip_rule", "successive_relu_clip_rule", "fuse_batchnorm_into_conv_rule",
                    "fuse_batchnorm_into_gemm_rule", "gemm_to_matmul_add_rule", "matmul_add_to_gemm_rule",
                    "collapse_slice_rule", "cast_constant_of_shape_rule", "no_op_expand_rule", "expand_before_binary_op_rules",
                    "fuse_hardswish_rules", "remove_optional_bias_from_conv_rule", "no_op_static_scatter_nd_rule",
                    "two_reshapes_matmul_reshape_rule", "normalize_pad_format_conv_rule"]

    def op_rewrite(self, rng: Rng, family: str | None = None) -> dict:
        m = self.model_ref(rng, family)
        fam = m.pop("family", None) or m.get("path", "")
        rules = rng.weighted([("default", 6), ("default_set", 3), ("default_commute", 1), ("single", 4), ("group", 2)])
        if rules == "single":
            rules = "single:" + rng.choice(self.SINGLE_RULES)
        elif rules == "group":
            rules = "group:" + ",".join(rng.sample(self.SINGLE_RULES, 3))
        api = rng.choice(["proto", "ir", "pass"] if rules == "default" else ["proto", "ir", "apply"])
        return with_id({"kind": "rewrite", "model": m, "rules": rules, "api": api, "family": fam})

    def op_convert(self, rng: Rng, family: str | None = None) -> dict:
        if family is None and rng.chance(0.5):
            family = "onnxscript/version_converter/_version_converter_test.py"
        m = self.model_ref(rng, family)
        fam = m.pop("family", None) or m.get("path", "")
        return with_id({"kind": "convert", "model": m, "target": rng.choice([13, 17, 18, 19, 20, 21, 22, 23, 24, 25]),
                        "fallback": rng.chance(0.3), "api": rng.choice(["proto", "ir", "pass"]), "family": fam})

    def any_op(self, rng: Rng, kinds: list[tuple[str, int]], family: str | None = None) -> dict:
        k = rng.weighted(kinds)
        if k == "translate":
            return self.op_translate(rng)
        if k == "optimize":
            return self.op_optimize(rng, family)
        if k == "rewrite":
            return self.op_rewrite(rng, family)
        return self.op_convert(rng, family)

    def text_families(self) -> list[str]:
        return sorted({f for f, _ in self.texts})
