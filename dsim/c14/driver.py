"""C14 driver: seeded (environment x history x fault plan) exploration with a differential oracle
against pristine processes; ddmin minimisation; replay; evidence."""
from __future__ import annotations

import collections
import concurrent.futures as cf
import copy
import json
import os
import subprocess
import sys

from dsim import common
from dsim.common import EXIT_HARNESS, EXIT_OK, EXIT_VIOLATION, jdump, log, sha
from dsim.prng import Rng
from dsim.c14 import launcher

PROP = "C14"

TIERS = {
    "quick": {"targets": 320, "runs": 600, "ref_seeds": [0, 1, 20260924, 4242], "fresh_checks": 6, "redo": 8, "min_budget": 24,
              "chunk": 12, "budget_s": 420, "torchlib": False},
    "thorough": {"targets": 4000, "runs": 24000, "ref_seeds": [0, 1, 2, 3, 7, 1234567, 20260924, 4294967295], "fresh_checks": 40,
                 "redo": 250, "min_budget": 60, "chunk": 25, "budget_s": 3300, "torchlib": True, "per_family": 10, "variant_cap": 24, "ort_models": 200, "ort_per_file": 40, "attention_models": 32, "gqa_models": 16, "script_twins": 40, "external_families": 23, "composed_models": 100, "op_families": 200},
}
REF_PRE_SKEW = [0, 3, 5, 1, 2, 7, 11, 13]   # pre-import heap skew of the i-th reference environment
PRE_SKEWS = [0, 0, 1, 2, 3, 5, 7, 11, 13, 101]
# class of the injected callee exception (half plain RuntimeError; the others reach typed handlers)
FAULT_EXCS = ["RuntimeError"] * 10 + ["ValueError", "TypeError", "KeyError", "IndexError", "AttributeError", "NotImplementedError",
                                      "FileNotFoundError", "MemoryError", "AssertionError", "OSError"]
GC_KNOBS = ["default", "default", "aggressive", "disabled", "collect_between"]
SKEWS = [0, 0, 0, 64, 1000, 20000]


# ------------------------------------------------------------------ generation

OBJECT_CONFIGS = [
    # (weight, kind, params): each names one long-lived object (or API entry) that successive operations share
    (4, "optimize", {"api": "fold_pass"}),
    (2, "optimize", {"api": "fold_pass_cb", "answer": "veto_add"}),
    (1, "optimize", {"api": "fold_pass_cb", "answer": "veto_mul"}),
    (2, "optimize", {"api": "fold_pass", "opts": {"onnx_shape_inference": False}}),
    (1, "optimize", {"api": "fold_pass", "opts": {"input_size_limit": 8}}),
    (3, "optimize", {"api": "proto"}),
    (2, "optimize", {"api": "ir"}),
    (1, "optimize", {"api": "ir", "opts": {"num_iterations": 1}}),
    (1, "optimize", {"api": "proto", "opts": {"stop_if_no_change": False, "num_iterations": 3}}),
    (1, "optimize", {"api": "proto", "opts": {"inline": False}}),
    (1, "optimize", {"api": "fold"}),
    (1, "optimize", {"api": "inline"}),
    (1, "optimize", {"api": "remove_unused"}),
    (1, "optimize", {"api": "proto", "opts": {"input_size_limit": 0}}),
    (1, "optimize", {"api": "ir", "opts": {"output_size_limit": 1}}),
    (1, "optimize", {"api": "ir", "opts": {"input_size_limit": 4, "output_size_limit": 1000000}}),
    (1, "optimize", {"api": "fold", "opts": {"onnx_shape_inference": False}}),
    (1, "optimize", {"api": "fold", "opts": {"input_size_limit": 4}}),
    (1, "optimize", {"api": "positional", "args": [1]}),
    (1, "optimize", {"api": "positional", "args": [3]}),
    (1, "optimize", {"api": "ir_should_fold", "answer": "alternate"}),
    (1, "optimize", {"api": "ir_should_fold", "answer": "never"}),
    (1, "optimize", {"api": "ir_should_fold", "raise_at": 1}),
    (1, "optimize", {"api": "ir_should_fold", "raise_at": 3}),
    (1, "optimize", {"api": "fw:torch_2_5:1"}),
    (1, "optimize", {"api": "fw:torch_2_5:0"}),
    (1, "optimize", {"api": "fw:torch_2_6:0"}),
    (2, "optimize", {"api": "fw:torch_2_8:0"}),
    (4, "rewrite", {"rules": "default", "api": "pass"}),
    (3, "rewrite", {"rules": "default", "api": "proto"}),
    (2, "rewrite", {"rules": "default", "api": "ir"}),
    (3, "rewrite", {"rules": "default_set", "api": "apply"}),
    (1, "rewrite", {"rules": "default_commute", "api": "ir"}),
    (2, "rewrite", {"rules": "group:reshape_reshape_rule,flatten_to_reshape_rule,cast_cast_rule,transpose_transpose_rule,unsqueeze_unsqueeze_rule", "api": "apply"}),
    (2, "rewrite", {"rules": "group:fuse_pad_into_conv_rule,normalize_pad_format_conv_rule,fuse_batchnorm_into_conv_rule,fuse_batchnorm_into_gemm_rule", "api": "apply"}),
    (2, "rewrite", {"rules": "group:materialize_reshape_shape_rule,min_min_rule,max_max_rule,min_max_rule,max_min_rule,successive_clip_rule,successive_relu_clip_rule", "api": "proto"}),
    (1, "rewrite", {"rules": "group:matmul_add_to_gemm_rule,gemm_to_matmul_add_rule,collapse_slice_rule,cast_constant_of_shape_rule,slice_split_rule", "api": "ir"}),
    (2, "rewrite", {"rules": "fusion:_rms_normalization", "api": "apply"}),
    (2, "rewrite", {"rules": "fusion:_layer_norm", "api": "apply"}),
    (1, "rewrite", {"rules": "fusion:_rotary_embedding", "api": "apply"}),
    (3, "rewrite", {"rules": "ort:gelu,erfgelu,bias_gelu", "api": "apply"}),
    (2, "rewrite", {"rules": "ort:rms_normalization,softmax", "api": "apply"}),
    (3, "convert", {"target": 18, "fallback": False, "api": "pass"}),
    (3, "convert", {"target": 20, "fallback": False, "api": "pass"}),
    (3, "convert", {"target": 23, "fallback": False, "api": "pass"}),
    (1, "convert", {"target": 21, "fallback": True, "api": "pass"}),
    (1, "convert", {"target": 20, "fallback": False, "api": "proto"}),
    (1, "convert", {"target": 25, "fallback": False, "api": "ir"}),
    (1, "convert", {"target": 13, "fallback": True, "api": "proto"}),
    (1, "convert", {"target": 21, "fallback": False, "api": "fw:torch_2_5:1"}),
    (1, "convert", {"target": 20, "fallback": False, "api": "fw:torch_2_6:0"}),
    (1, "convert", {"target": 17, "fallback": False, "api": "fw:torch_2_6:0"}),
    (1, "convert", {"target": 19, "fallback": False, "api": "fw:torch_2_9:0"}),
    (1, "convert", {"target": 23, "fallback": False, "api": "fw:torch_2_9:0"}),
]


FAMILY_AFFINITY = {
    "gen:user_rules": "user:all",
    "gen:rms_norm": "fusion:_rms_normalization", "gen:layer_norm": "fusion:_layer_norm", "gen:gelu": "ort:gelu,erfgelu,bias_gelu",
    "gen:matmul_add": "group:matmul_add_to_gemm_rule,gemm_to_matmul_add_rule,collapse_slice_rule,cast_constant_of_shape_rule,slice_split_rule",
    "gen:pad_conv": "group:fuse_pad_into_conv_rule,normalize_pad_format_conv_rule,fuse_batchnorm_into_conv_rule,fuse_batchnorm_into_gemm_rule",
    "gen:bn_conv": "group:fuse_pad_into_conv_rule,normalize_pad_format_conv_rule,fuse_batchnorm_into_conv_rule,fuse_batchnorm_into_gemm_rule",
    "gen:bn_gemm": "group:fuse_pad_into_conv_rule,normalize_pad_format_conv_rule,fuse_batchnorm_into_conv_rule,fuse_batchnorm_into_gemm_rule",
    "gen:hardswish": "group:fuse_hardswish_rules,successive_clip_rule,successive_relu_clip_rule",
    "gen:conv_affine": "group:conv_affine_fusion_rule,affine_conv_fusion_rule,fuse_batchnorm_into_conv_rule,remove_optional_bias_from_conv_rule",
    "gen:expand_binary": "group:expand_before_binary_op_rules,no_op_expand_rule",
    "gen:reshape_matmul": "group:two_reshapes_matmul_reshape_rule,one_reshape_matmul_reshape_rule,reshape_reshape_rule",
    "gen:scatter_nd": "group:no_op_static_scatter_nd_rule,no_op_dynamic_scatter_nd_rule",
    "gen:reshape_reshape": "group:reshape_reshape_rule,flatten_to_reshape_rule,cast_cast_rule,transpose_transpose_rule,unsqueeze_unsqueeze_rule",
}


PRECISION_TWIN_FAMS = ("gelu", "hardswish", "layer_norm", "rms_norm")
FAMILY_AFFINITY_2 = {"gen:rms_norm": "ort:rms_normalization,softmax", "gen:fold_chain": None, "gen:user_rules": "user:commute"}
FAMILY_AFFINITY_3 = {"gen:random_ops": [("optimize", {"api": "fold_pass"}), ("optimize", {"api": "proto"}), ("optimize", {"api": "fold"})],
                     "gen:opset_twins": [("optimize", {"api": "fold_pass"}), ("optimize", {"api": "ir"}), ("optimize", {"api": "proto"})],
                     "gen:local_functions": [("optimize", {"api": "inline"}), ("optimize", {"api": "proto"}), ("optimize", {"api": "ir"})],
                     "gen:user_rules": [("rewrite", {"rules": "user:functions", "api": "apply"}), ("rewrite", {"rules": "user:all", "api": "ir"}),
                                        ("rewrite", {"rules": "user:bad_pattern", "api": "apply"})]}


def object_key(op: dict) -> str:
    """Which long-lived object / entry point an operation goes through."""
    if op["kind"] == "translate":
        return "translate"
    return jdump([op["kind"], op.get("api"), op.get("rules"), op.get("opts"), op.get("target"), op.get("fallback"), op.get("args"),
                  op.get("answer")])


_OPT_CLASS = {"proto": "optimize", "ir": "optimize", "positional": "optimize", "fold_pass": "fold", "fold": "fold"}


def group_key(op: dict) -> str:
    """Which *configuration* an operation goes through, by whatever entry point (ModelProto / ir.Model function API, a
    long-lived pass object, a framework-API wrapper): state kept per configuration behind the entry points — a memoised pass,
    a module-level converter — is shared by all of them."""
    if op["kind"] == "translate":
        return "translate"
    api = str(op.get("api"))
    if op["kind"] == "optimize":
        cls = "optimize" if api.startswith("fw:") else _OPT_CLASS.get(api, api)
        return jdump(["optimize", cls, None if api.startswith("fw:") else op.get("opts"), op.get("answer")])
    if op["kind"] == "convert":
        return jdump(["convert", op.get("target"), bool(op.get("fallback")) or api.startswith(("fw:torch_2_6", "fw:torch_2_9"))])
    return jdump([op["kind"], op.get("rules")])


def gen_targets(seed: int, tier: dict, pools) -> list[dict]:
    """Targets = (model x object config) operations plus script translations; structured so that every
    long-lived object is shared by several targets."""
    from dsim.c14.pools import with_id

    rng = Rng(seed).sub("targets")
    n = tier["targets"]
    out, seen = [], set()

    def add(op):
        if op["id"] not in seen:
            seen.add(op["id"])
            out.append(op)

    n_tr = n * 3 // 10
    for i in range(n_tr):
        add(pools.op_translate(rng.sub("t", i)))
    # script twins: the same text, line for line, except for the values of module-level constants, all written to the same
    # real file one after the other (an edited module that is run again; a notebook cell): anything keyed by file name,
    # line number or code object across translations shows
    from dsim.c14 import genscripts

    for i in range(tier.get("script_twins", 5)):
        tag = f"tw{rng.sub('twin-tag', i).below(10**6)}"
        for j in range(3 if i % 2 else 2):
            g = genscripts.gen_script(rng.sub("twin-structure", i), tag, consts=rng.sub("twin-consts", i, j), const_exprs=True)
            op = {"kind": "translate", "src": g["src"], "fns": g["fns"], "family": f"twins:{i}", "shared_filename": True}
            if j == 1:
                op["repeat"] = 1
            add(with_id(op))
    n_models = max(8, (n - n_tr) // 4)
    fams = pools.text_families()
    from dsim.c14 import genmodels

    # parameter families for the state-stashing rules: same structure and value names, different parameters.
    # Each batch goes deep on a seeded subset of the families (>= 4 members each) rather than thin on all.
    gen_fams = sorted(genmodels.FAMILIES)
    rng.sub("famorder").shuffle(gen_fams)
    per_fam = tier.get("per_family", 3)
    gen_slots, gen_member = [], []
    for gf in gen_fams:
        n_mem = max(per_fam, genmodels.members_per_batch(gf, per_fam, cap=tier.get("variant_cap", 10)))
        if gf in PRECISION_TWIN_FAMS:
            n_mem = max(4, n_mem + n_mem % 2)   # members 2j and 2j+1: one text, two floating-point precisions
        gen_slots += [gf] * n_mem
        gen_member += list(range(n_mem))
    from dsim.c14 import genmodels

    # models containing the operators that some generated scripts use as *helper function names* (cross-kind pairs)
    for fam in sorted({t.get("family") for t in out if str(t.get("family")).startswith("oplike:")}):
        opname = fam.split(":", 1)[1]
        chain_models = []
        for j in range(2):
            text = genmodels.op_shape_chain(rng.sub("oplike-chain", opname, j), opname)
            if text:
                chain_models.append({"pool": "text", "text": text})
        for m in chain_models + pools.backend_models_of_op(opname, rng.sub("oplike-models", opname), n=1):
            for kind, params in (("optimize", {"api": "fold_pass"}), ("optimize", {"api": "ir"})):
                add(with_id({"kind": kind, "model": m, "family": "opmodel:" + opname, **copy.deepcopy(params)}))
    # operator families from the onnx backend node tests: a fully lifted (constant-foldable) single-node model and
    # variants differing in one attribute value, through the folding entry points
    for i in range(tier.get("op_families", 6)):
        r = rng.sub("opfam", i)
        members = pools.backend_attr_family(r)
        for m in members or []:
            fam = m.pop("family")
            for kind, params in (("optimize", {"api": "fold_pass"}), ("optimize", {"api": r.choice(["ir", "proto"])}),
                                 ("optimize", {"api": "fold"})):
                add(with_id({"kind": kind, "model": m, "family": fam, **copy.deepcopy(params)}))
    # composed models: 2-3 members of opset-20 families side by side in one graph (several matches of one rule, or of
    # different rules, in one traversal; several outputs; duplicated initializers)
    compose_fams = [f for f in gen_fams if f not in ("rms_norm", "layer_norm", "gelu", "fold_chain")]   # opset-20 families
    for i in range(tier.get("composed_models", 8)):
        r = rng.sub("compose", i)
        same = r.chance(0.5)
        f1 = r.choice(compose_fams)
        picks = [f1, f1 if same else r.choice(compose_fams)] + ([r.choice(compose_fams)] if r.chance(0.4) else [])
        texts = [genmodels.gen_model(r.sub("part", j), f)[1] for j, f in enumerate(picks)]
        if same and r.chance(0.3):
            texts[1] = texts[0]   # identical twins: identical initializers, identical sub-graphs
        m = {"pool": "compose", "texts": texts}
        for kind, params in (("rewrite", {"rules": "default", "api": "pass"}), ("optimize", {"api": "ir"}),
                             ("rewrite", {"rules": "default_set", "api": "apply"}), ("optimize", {"api": "fold_pass"})):
            add(with_id({"kind": kind, "model": m, "family": "gen:compose", **copy.deepcopy(params)}))
    # models "loaded with external data": for a seeded handful of families, one member's text twice more — once with its
    # initializers in <base_dir>/weights.bin and once with that file missing (loaded without its weights); same relative
    # location, different base_dir
    ext_fams = list(gen_fams)
    rng.sub("extfams").shuffle(ext_fams)
    for gf in ext_fams[:tier.get("external_families", 24)]:
        r = rng.sub("ext", gf)
        fam_name, text = genmodels.gen_model(r.sub("gen"), gf, member=0, offset=rng.sub("variant-offset", gf).below(64))
        for present in (True, False):
            m = {"pool": "text", "text": text, "external": {"present": present}}
            cfgs = [("rewrite", {"rules": FAMILY_AFFINITY.get(fam_name, "default_set"), "api": "apply"}),
                    ("rewrite", {"rules": "default", "api": "pass"}), ("optimize", {"api": "fold_pass"})]
            for kind, params in cfgs:
                # one family of their own: what these models share is the relative location of their data, not a rule
                add(with_id({"kind": kind, "model": m, "family": "gen:external", **copy.deepcopy(params)}))
    # the version converter's own test models are the ones on which adapters replace nodes
    vc_texts = [(f, t) for f, t in pools.texts if "version_converter" in f]
    rng.sub("vcorder").shuffle(vc_texts)
    for i, (f, t) in enumerate(vc_texts[:tier.get("vc_models", 8)]):
        r = rng.sub("vc", i)
        m = {"pool": "text", "text": t}
        for target in r.sample([20, 21, 23, 25], 2):
            add(with_id({"kind": "convert", "model": m, "family": f, "target": target if target != 21 else 23, "fallback": False, "api": "pass"}))
        add(with_id({"kind": "convert", "model": m, "family": f, "target": r.choice([19, 20, 22]), "fallback": r.chance(0.5),
                     "api": r.choice(["proto", "ir"])}))
    # the ORT fusion tests' models (attention / MHA / SDPA / rotary embedding / cos-sin cache / skip-normalization ...):
    # through the rule sets of the module the test file is named after, through that module's fuse_* entry points, and
    # through the package's drivers (fuse_xformers / optimize_for_ort), all of which run module-level rule singletons
    ort_models = list(pools.ort_script_models)
    rng.sub("ortorder").shuffle(ort_models)
    ort_by_file: dict = collections.defaultdict(list)
    for m in ort_models:
        ort_by_file[m["family"]].append(m)
    ort_files = sorted(ort_by_file)
    rng.sub("ortfiles").shuffle(ort_files)
    n_ort = 0
    for fam in ort_files:
        for m0 in ort_by_file[fam][:tier.get("ort_per_file", 3)]:
            if n_ort >= tier.get("ort_models", 12):
                break
            n_ort += 1
            m = {k: v for k, v in m0.items() if k != "family"}
            mod = fam.split(":", 1)[1]
            for suf in ("_extended_test.py", "_unit_test.py", "_test.py", ".py"):
                if mod.endswith(suf):
                    mod = mod[:-len(suf)]
                    break
            mod = {"_rotary_embedding_models": "rotary_embedding", "fuse_xformers": "mha"}.get(mod, mod)
            r = rng.sub("ortcfg", n_ort)
            cfgs = [("rewrite", {"rules": "ortfuse:fuse_xformers", "api": "apply", "pre_optimize": True}),
                    ("rewrite", {"rules": "ortfuse:optimize_for_ort", "api": "apply"})]
            if mod != "fused_matmul_rule_sets":
                cfgs.append(("rewrite", {"rules": "ortall:" + mod, "api": "apply", "pre_optimize": True}))
                if r.chance(0.5):
                    cfgs.append(("rewrite", {"rules": "ortfn:" + mod, "api": "apply", "pre_optimize": True}))
            if mod == "rotary_embedding":
                cfgs.append(("rewrite", {"rules": "ortall:cos_sin_cache", "api": "apply", "pre_optimize": True}))
                # ... and, declared as opset 23 the way rules/fusion's own test does, through the standard-ONNX fusions
                m23 = dict(m, force_opset=23)
                for kind, params in (("rewrite", {"rules": "fusionall:_rotary_embedding", "api": "apply", "pre_optimize": True}),
                                     ("rewrite", {"rules": "onnxfuse", "api": "apply", "pre_optimize": True})):
                    add(with_id({"kind": kind, "model": m23, "family": fam, **copy.deepcopy(params)}))
            _, kind, params = r.weighted([(c, c[0]) for c in OBJECT_CONFIGS])
            cfgs.append((kind, params))
            for kind, params in cfgs:
                add(with_id({"kind": kind, "model": m, "family": fam, **copy.deepcopy(params)}))
    # attention family (generated scripts): mask / scale / head-size / bias variants through the ORT fusion chain
    from dsim.c14 import genattention

    att_off = rng.sub("variant-offset", "attention").below(64)
    for i in range(tier.get("attention_models", 8)):
        r = rng.sub("att", i)
        m = genattention.gen(r.sub("gen"), member=i, offset=att_off)
        m.pop("variant", None)
        cfgs = [("rewrite", {"rules": "ortfuse:optimize_for_ort", "api": "apply"}),
                ("rewrite", {"rules": "ortall:sdpa,mha,mha_scale,mha_bias,attention", "api": "apply", "pre_optimize": True}),
                ("rewrite", {"rules": "ortfuse:fuse_xformers", "api": "apply", "pre_optimize": True})]
        _, kind, params = r.weighted([(c, c[0]) for c in OBJECT_CONFIGS])
        cfgs.append((kind, params))
        for kind, params in cfgs:
            add(with_id({"kind": kind, "model": m, "family": "gen:attention", **copy.deepcopy(params)}))
    gqa_off = rng.sub("variant-offset", "gqa").below(64)
    for i in range(tier.get("gqa_models", 4)):
        r = rng.sub("gqa", i)
        m = genattention.gen_gqa(r.sub("gen"), member=i, offset=gqa_off)
        m.pop("variant", None)
        cfgs = [("rewrite", {"rules": "fusionall:_gqa", "api": "apply", "pre_optimize": True}),
                ("rewrite", {"rules": "onnxfuse", "api": "apply", "pre_optimize": True}),
                ("optimize", {"api": "fw:torch_2_8:0"})]
        if r.chance(0.5):
            cfgs.append(("rewrite", {"rules": "ortfuse:optimize_for_ort", "api": "apply"}))
        for kind, params in cfgs:
            add(with_id({"kind": kind, "model": m, "family": "gen:gqa", "member": i, **copy.deepcopy(params)}))
    script_slots = [x for x in pools.script_models if "/fusion/" in x[0]]
    rng.sub("scriptorder").shuffle(script_slots)
    script_slots = script_slots[:tier.get("script_models", 8)]
    for i in range(len(gen_slots) + len(script_slots) + max(8, n_models // 3)):
        r = rng.sub("m", i)
        member_idx = None
        if i < len(gen_slots):
            ptwin = gen_slots[i] in PRECISION_TWIN_FAMS
            mm = gen_member[i]
            # precision twins: members 2j and 2j+1 of these families are ONE text in two floating-point precisions (the rules
            # match constants by value, in the precision of the model at hand)
            f, text = genmodels.gen_model(rng.sub("ptwin", gen_slots[i], mm // 2) if ptwin else r.sub("gen"), gen_slots[i],
                                          member=mm // 2 if ptwin else mm, offset=rng.sub("variant-offset", gen_slots[i]).below(64))
            m = {"pool": "text", "text": text, "family": f}
            member_idx = mm
            if r.sub("node-meta").chance(0.35) and not ptwin:
                m["node_meta"] = True
            if ptwin and mm % 2:
                m["retype"] = ["FLOAT16", "BFLOAT16", "FLOAT16", "DOUBLE"][(mm // 2) % 4]
            elif not ptwin and r.sub("retype").chance(0.08):
                m["retype"] = r.sub("retype-kind").choice(["FLOAT16", "FLOAT16", "BFLOAT16", "DOUBLE"])
        elif i < len(gen_slots) + len(script_slots):
            f, fn, src = script_slots[i - len(gen_slots)]
            m = {"pool": "script", "src": src, "fn": fn, "family": "script:" + f}
        else:
            m = pools.model_ref(r, family=r.choice(fams) if r.chance(0.6) else None)
        fam = m.pop("family", None) or m.get("path", "")
        mem = {} if member_idx is None else {"member": member_idx}
        for kind, params in FAMILY_AFFINITY_3.get(fam, [])[:1 + r.below(3)]:
            add(with_id({"kind": kind, "model": m, "family": fam, **mem, **copy.deepcopy(params)}))
        k = r.randint(3, 4) if fam in ("gen:rms_norm", "gen:fold_chain", "gen:user_rules") else r.randint(2, 4) if fam.startswith("gen:") else r.randint(3, 5)
        if fam.startswith("gen:") and r.chance(0.35):
            # version conversion through a long-lived pass, to a target that is (or is not) the model's own version
            add(with_id({"kind": "convert", "model": m, "family": fam, **mem, "target": r.choice([18, 20, 23]), "fallback": False, "api": "pass"}))
        for j in range(k):
            _, kind, params = r.weighted([(c, c[0]) for c in OBJECT_CONFIGS])
            if j == 0 and fam.startswith("script:") and "/fusion/" in fam:
                # the rule tests' own recipe: optimize, then apply the fusion rule set named by the test file
                mod = os.path.basename(fam).replace("_extended_test.py", "").replace("_test.py", "")
                kind, params = "rewrite", {"rules": "fusion:" + mod, "api": "apply", "pre_optimize": True}
            elif j == 1 and FAMILY_AFFINITY_2.get(fam):
                kind, params = "rewrite", {"rules": FAMILY_AFFINITY_2[fam], "api": "apply"}
            elif j == 1 and fam == "gen:fold_chain":
                kind, params = "optimize", {"api": "fold_pass_cb", "answer": "veto_add"}
            elif j == 0 and fam in FAMILY_AFFINITY:
                # make sure the family meets the rule set that stashes its parameters
                # through the *long-lived* RewriteRuleSet object (api "apply"), so that the family shares one object
                kind, params = "rewrite", {"rules": FAMILY_AFFINITY[fam], "api": "apply"}
            if kind == "convert" and m["pool"] == "onnx_backend" and r.chance(0.5):
                continue
            add(with_id({"kind": kind, "model": m, "family": fam, **mem, **copy.deepcopy(params)}))
    if tier.get("torchlib"):
        out.append(with_id({"kind": "torchlib", "family": "torchlib"}))
    return out


def _rule_bearing(op: dict) -> bool:
    """Does the operation run shipped rewrite-rule singletons over the model?"""
    if op["kind"] == "rewrite":
        return True
    return op["kind"] == "optimize" and op.get("api") not in ("remove_unused", "inline")


def _family_objects(pool: list[dict]) -> list[str]:
    """Object configurations through which at least three members of the family go."""
    cnt = collections.Counter(object_key(t) for t in pool)
    return sorted(k for k, n in cnt.items() if n >= 3)


def _pair_run(rng: Rng, pool: list[dict], failing: set, length: int, changing: set | None = None) -> list[dict]:
    """[A1, B1, A2, B2, ...]: every A fails part-way (it fails by itself, or gets an injected callee exception) and the
    B right after it goes through the same singletons with other parameters and is checked."""
    ops = []
    natural = [t for t in pool if t["id"] in failing]
    while len(ops) + 2 <= max(2, length):
        if natural and rng.chance(0.4):
            a = copy.deepcopy(rng.choice(natural))
            if rng.chance(0.3):
                a["fault"] = {"frac": rng.below(10**6) / 10**6}
        else:
            # prefer an A that really changes its model (a rule fires, something folds, an adapter replaces a node):
            # that is when per-call state on the shared object gets written before the fault lands
            movers = [t for t in pool if changing and t["id"] in changing]
            a = copy.deepcopy(rng.choice(movers if movers and rng.chance(0.75) else pool))
            if rng.chance(0.65):
                a["fault"] = {"frac": rng.below(10**6) / 10**6}
            # else: A completes normally — state stashed on the shared object by a *successful* predecessor
        others = [t for t in pool if jdump(t.get("model")) != jdump(a.get("model"))] or pool
        # family members carry their index; neighbours in a family are the variants declared next to each other (a member
        # the rule / evaluator cannot handle next to its twin that it can): prefer a neighbour of A as B
        near = [t for t in others if a.get("member") is not None and t.get("member") is not None and abs(t["member"] - a["member"]) == 1]
        b = copy.deepcopy(rng.choice(near if near and rng.chance(0.4) else others))
        # state that accumulates (counters, thresholds, bounded caches) shows only on the n-th occurrence: A two or three
        # times in a row before B
        reps = rng.weighted([(1, 6), (2, 3), (3, 1)])
        for j in range(reps - 1):
            if len(ops) + 3 <= 9:
                again = copy.deepcopy(a)
                if rng.chance(0.5):
                    again.pop("fault", None)
                ops.append(again)
        ops += [a, b]
    return ops


def _call_styles(rng: Rng, ops: list[dict]) -> None:
    """Run-time variations of how a translate target's protos are asked for; not part of the target's identity, so the
    result is compared with the canonical style's reference."""
    r = rng.sub("call-styles")
    for op in ops:
        if op["kind"] == "translate":
            if r.chance(0.25):
                op["mp_first"] = True
            if r.chance(0.3):
                op["mp_kwargs"] = "first" if (not op.get("repeat") or r.chance(0.5)) else "between"


def gen_runs(seed: int, tier: dict, targets: list[dict], repo: str, failing: set | None = None,
             changing: set | None = None) -> list[dict]:
    runs = []
    failing = failing or set()
    changing = changing or set()
    by_family: dict = collections.defaultdict(list)
    by_kind: dict = collections.defaultdict(list)
    by_obj: dict = collections.defaultdict(list)
    by_group: dict = collections.defaultdict(list)
    for t in targets:
        by_group[group_key(t)].append(t)
        by_family[t.get("family")].append(t)
        by_kind[t["kind"]].append(t)
        by_obj[object_key(t)].append(t)
    fams = sorted(k for k, v in by_family.items() if k and len(v) >= 2)
    objs = sorted(k for k, v in by_obj.items() if len(v) >= 3 and k != "translate")
    kinds_all = [k for k in ("translate", "optimize", "rewrite", "convert") if by_kind[k]]
    gfams = [f for f in fams if f.startswith(("gen:", "op:", "ortm:"))]
    if "gen:external" in gfams:
        gfams += ["gen:external"] * 2   # three turns in the rotation: its template needs both halves to be relevant
    custom_scripts = [t for t in by_kind["translate"] if "CUSTOM = Opset(" in t.get("src", "")]
    twin_fams = sorted(f for f in by_family if str(f).startswith("twins:") and len(by_family[f]) >= 2)
    oplike_fams = sorted(f for f in by_family if str(f).startswith("oplike:"))
    stateful = [k for k in objs if any(a in k for a in ('"fold_pass"', '"fold_pass_cb"', '"pass"', '"apply"'))]
    groups = sorted(k for k, v in by_group.items() if k != "translate" and len(v) >= 3 and len({object_key(t) for t in v}) >= 2)
    for r in range(tier["runs"]):
        rng = Rng(seed).sub("run", r)
        env = {
            "hashseed": rng.weighted([(0, 2), (1, 2), (2, 1), (3, 1), (rng.sub("h").below(2**32), 4)]),
            "gc": rng.choice(GC_KNOBS), "repo": repo, "aslr_off": True, "pre_skew": rng.sub("pre").choice(PRE_SKEWS),
        }
        length = rng.randint(2, 9)
        fault_density = rng.choice([0.0, 0.0, 0.25, 0.5])
        template = rng.weighted([("mix", 2), ("same_object", 4), ("family", 2), ("translate", 2), ("fail_then", 5)])
        if template in ("same_object", "fail_then") and not objs:
            template = "mix"
        if template == "family" and not fams:
            template = "mix"
        env["template"] = template
        kinds = [k for k in kinds_all if rng.chance(0.7)] or kinds_all
        focus = rng.choice(fams) if template == "family" else None
        obj = rng.choice(objs) if template in ("same_object", "fail_then") else None
        if template == "fail_then" and stateful and rng.chance(0.8):
            obj = rng.choice(stateful)  # objects that keep per-call state on self between calls
        if template == "fail_then" and gfams and rng.chance(0.5):
            obj, focus = None, rng.choice(gfams)  # ... or one rule's parameter family through any entry point
        ops = []
        # a fixed share of every batch walks the rule-parameter families and the stateful objects systematically
        # (round-robin, not sampled), as fail-then pairs: this is where "state survives a failed operation" lives
        slot = r % 10   # 0,4,5,9: rule/operator families  1,3,6: long-lived objects  2: shared opset domain  7: script then model  8: sampled
        if slot in (0, 4, 5, 9) and gfams:
            fam = gfams[(4 * (r // 10) + (0, 4, 5, 9).index(slot)) % len(gfams)]
            pool = [t for t in by_family[fam] if _rule_bearing(t)]
            if fam == "gen:external" and len(pool) >= 2:
                # models loaded without their data first, then models whose data is there (same relative location)
                template, env["template"] = "missing_then_present", "missing_then_present"
                missing = [t for t in pool if not t["model"].get("external", {}).get("present", True) and t["kind"] == "rewrite"]
                present = [t for t in pool if t["model"].get("external", {}).get("present", True) and t["kind"] == "rewrite"]
                k = max(1, min(4, length // 2))
                ops = [copy.deepcopy(t) for t in rng.sample(missing, min(k, len(missing)))]
                ops += [copy.deepcopy(t) for t in rng.sample(present, min(max(1, length - len(ops)), len(present), 5))]
            elif len(pool) >= 2 and slot in (5, 9) and _family_objects(pool):
                # every member of the family through ONE long-lived object, one after the other (state keyed by the value
                # names the members share); a third of them with an injected failure
                template, env["template"] = "family_on_object", "family_on_object"
                ob = rng.choice(_family_objects(pool))
                members = [t for t in pool if object_key(t) == ob]
                rng.shuffle(members)
                ops = [copy.deepcopy(t) for t in members[:9]]
                for op in ops[:-1]:
                    if rng.chance(0.3):
                        op["fault"] = {"frac": rng.below(10**6) / 10**6}
            elif len(pool) >= 2:
                template, env["template"] = "pairs_family", "pairs_family"
                ops = _pair_run(rng, pool, failing, length, changing)
        elif slot == 6 and groups:
            # the same configuration through different entry points (function API on a ModelProto / on an ir.Model, a
            # long-lived pass object, a framework wrapper)
            gk = groups[(r // 10) % len(groups)]
            template, env["template"] = "pairs_configuration", "pairs_configuration"
            ops = _pair_run(rng, by_group[gk], failing, length, changing)
        elif slot in (1, 3, 6) and stateful:
            ob = stateful[(2 * (r // 10) + (1, 3, 6).index(slot) % 2) % len(stateful)]
            if len(by_obj[ob]) >= 2:
                template, env["template"] = "pairs_object", "pairs_object"
                ops = _pair_run(rng, by_obj[ob], failing, length, changing)
        elif slot == 7 and oplike_fams:
            # a script translation first, then models containing the operator its helper function is named after
            fam = oplike_fams[(r // 10) % len(oplike_fams)]
            opname = fam.split(":", 1)[1]
            models = by_family.get("opmodel:" + opname, [])
            if models:
                template, env["template"] = "script_then_model", "script_then_model"
                ops = [copy.deepcopy(rng.choice(by_family[fam]))] + [copy.deepcopy(t) for t in rng.sample(models, min(3, len(models)))]
                if rng.chance(0.3):
                    ops = ops[1:] + ops[:1] + [copy.deepcopy(ops[1])]   # models first, the script, a model again
        elif slot == 2 and twin_fams and (r // 10) % 2 == 1:
            # an edited module run again: the twins of one script through the same file, in some order, one of them once more
            template, env["template"] = "edited_module", "edited_module"
            members = list(by_family[twin_fams[(r // 20) % len(twin_fams)]])
            rng.shuffle(members)
            ops = [copy.deepcopy(t) for t in members]
            if rng.chance(0.5):
                ops.insert(rng.below(len(ops) + 1), copy.deepcopy(rng.choice(by_kind["translate"])))
            ops.append(copy.deepcopy(ops[0]))
            for op in ops[:-1]:
                if rng.chance(0.15):
                    op["fault"] = {"frac": rng.below(10**6) / 10**6}
        elif slot == 2 and len(custom_scripts) >= 2:
            # scripts whose helpers live in the same custom opset domain at different versions (Opset singletons are
            # process-wide), plus revisits of long-lived OnnxFunctions
            template, env["template"] = "shared_opset_domain", "shared_opset_domain"
            for j in range(max(2, length)):
                op = copy.deepcopy(rng.choice(custom_scripts if rng.chance(0.8) else by_kind["translate"]))
                if ops and rng.chance(0.2):
                    op = copy.deepcopy(rng.choice(ops))
                    op["reuse"] = rng.chance(0.5)
                    op.pop("fault", None)
                elif j < length - 1 and rng.chance(0.2):
                    op["fault"] = {"frac": rng.below(10**6) / 10**6}
                ops.append(op)
        if ops and len(ops) < 9 and rng.chance(0.3):
            # the very same operation once more at the end (same model through the same object twice)
            again = copy.deepcopy(rng.choice(ops))
            again.pop("fault", None)
            ops.append(again)
        if ops:
            env["skew"] = [rng.choice(SKEWS) for _ in ops]
            _call_styles(rng, ops)
            runs.append({"kit": common.KIT_VERSION, "property": PROP, "seed": seed, "run": r, "env": env,
                         "mode": "sequential", "ops": ops})
            continue
        for j in range(length):
            if obj is not None and rng.chance(0.85):
                op = copy.deepcopy(rng.choice(by_obj[obj]))
            elif focus is not None and rng.chance(0.85):
                op = copy.deepcopy(rng.choice(by_family[focus]))
            elif template == "translate":
                op = copy.deepcopy(rng.choice(by_kind["translate"]))
            else:
                op = copy.deepcopy(rng.choice(by_kind[rng.choice(kinds)]))
            if op["kind"] == "torchlib" and j < length - 1:
                op = copy.deepcopy(rng.choice(by_kind[rng.choice(kinds)]))
            ops.append(op)
        # revisit an earlier target later in the same process (idempotence across history; long-lived OnnxFunction)
        if length >= 3 and rng.chance(0.35):
            a = rng.below(length - 1)
            again = copy.deepcopy(ops[a])
            if again["kind"] == "translate":
                again["reuse"] = rng.chance(0.6)
            ops[rng.randint(a + 1, length - 1)] = again
        for j, op in enumerate(ops):
            if j < length - 1 and rng.chance(fault_density):
                op["fault"] = {"frac": rng.below(10**6) / 10**6}
        if template == "fail_then":
            # a faulted operation immediately before another one on the same long-lived object
            j = 0
            while j < length - 1:
                if (object_key(ops[j]) == object_key(ops[j + 1]) or ops[j].get("family") == ops[j + 1].get("family")) and rng.chance(0.8):
                    ops[j]["fault"] = {"frac": rng.below(10**6) / 10**6}
                    ops[j + 1].pop("fault", None)
                    j += 2
                else:
                    j += 1
        env["skew"] = [rng.choice(SKEWS) for _ in ops]
        _call_styles(rng, ops)
        runs.append({"kit": common.KIT_VERSION, "property": PROP, "seed": seed, "run": r, "env": env,
                     "mode": "sequential", "ops": ops})
    return runs


# ------------------------------------------------------------------ execution helpers

def _par(specs: list[dict], pyc: str, workers: int, timeout: int, deadline_left) -> list[dict]:
    out: list = [None] * len(specs)
    with cf.ThreadPoolExecutor(max_workers=workers) as ex:
        futs = {ex.submit(launcher.launch, s, pyc, timeout): i for i, s in enumerate(specs)}
        for f in cf.as_completed(futs):
            out[futs[f]] = f.result()
    return out


def reference_phase(targets: list[dict], tier: dict, pyc: str, repo: str, workers: int):
    """ref[h][id] = record of the op executed alone in a pristine (forked post-import) process under hash seed h.
    The first seed's pass also counts traced calls per op (for fault placement)."""
    specs, meta = [], []
    chunk = tier["chunk"]
    for hi, h in enumerate(tier["ref_seeds"]):
        for c in range(0, len(targets), chunk):
            ops = copy.deepcopy(targets[c:c + chunk])
            for op in ops:
                op.pop("fault", None)
                op.pop("mp_first", None)   # the references use the canonical call style
                op.pop("mp_kwargs", None)
                if hi == 0:
                    op["count_calls"] = True
            specs.append({"kit": common.KIT_VERSION, "property": PROP, "mode": "fork_each",
                          "env": {"hashseed": h, "gc": "default", "repo": repo, "skew": [], "aslr_off": True, "fingerprint": False,
                                  "pre_skew": REF_PRE_SKEW[hi % len(REF_PRE_SKEW)]},
                          "ops": ops})
            meta.append(h)
    outs = _par(specs, pyc, workers, 900, None)
    ref: dict = {h: {} for h in tier["ref_seeds"]}
    spec_of: dict = {}
    errors = []
    for h, o, sp in zip(meta, outs, specs):
        if "error" in o:
            errors.append(f"reference process (hash seed {h}): {o['error'][:400]}")
            continue
        for rec in o["log"]:
            ref[h][rec["id"]] = rec
            spec_of[(h, rec["id"])] = sp
    return ref, errors, spec_of


def canon(rec: dict):
    """What is compared: status + result digests (exception class only for failures)."""
    return (rec.get("status"), jdump(rec.get("result")))


def internal_violations(op: dict, rec: dict) -> list[dict]:
    out = []
    if rec.get("status") == "ok":
        bad = sorted(k for k in rec["result"] if k.endswith(".REPEAT"))
        if bad:
            after_mut = any("after-mutation" in rec["result"][k] for k in bad)
            out.append({"class": "globals-leak" if after_mut else "repeat-call-differs", "keys": bad[:4]})
    return out


# ------------------------------------------------------------------ judging

def judge_run(run: dict, out: dict, ref: dict, seed_dep: set) -> tuple[list[dict], dict]:
    """Compare every non-faulted op of a sequential run with the pristine reference."""
    viol, stats = [], collections.Counter()
    any_ref = next(iter(ref.values()))
    for op, rec in zip(run["ops"], out["log"]):
        stats["ops"] += 1
        if op.get("fault") is not None:
            stats["fault_configured"] += 1
        if rec.get("faulted") or rec.get("exc_from_fault"):
            stats["fault_fired"] += 1
            stats["fault_swallowed" if rec.get("fault_swallowed") else "fault_propagated"] += 1
            continue
        if rec["id"] in seed_dep:
            stats["skipped_seed_dependent"] += 1
            continue
        want = any_ref.get(rec["id"])
        if want is None:
            stats["no_reference"] += 1
            continue
        stats["checked"] += 1
        if rec.get("status") == "raised":
            stats["checked_failing_target"] += 1
        if canon(rec) != canon(want):
            cls = "failure-differs" if "raised" in (rec.get("status"), want.get("status")) else "history-dependent"
            viol.append({"class": cls, "op_index": rec["i"], "op_id": rec["id"], "kind": op["kind"],
                         "got": [rec.get("status"), rec.get("result")], "want": [want.get("status"), want.get("result")],
                         "exc_text": rec.get("exc_text")})
    return viol, stats


# ------------------------------------------------------------------ minimiser (ddmin over the history)

def _fails_same(spec: dict, target_id: str, want, pyc: str) -> bool:
    o = launcher.launch(spec, pyc, 300)
    if "error" in o:
        return False
    for rec in o["log"]:
        if rec["id"] == target_id and rec["i"] == len(spec["ops"]) - 1:
            if rec.get("faulted"):
                return False
            return canon(rec) != want
    return False


def minimise_history(run: dict, v: dict, ref: dict, pyc: str, budget: int) -> dict:
    """Shrink: cut everything after the failing op, ddmin the ops before it, drop faults, zero the skew, default GC."""
    want = canon(next(iter(ref.values()))[v["op_id"]])
    k = v["op_index"]
    best = copy.deepcopy(run)
    best["ops"] = best["ops"][:k + 1]
    best["env"]["skew"] = best["env"]["skew"][:k + 1]
    best["ops"][-1].pop("fault", None)
    calls = [0]

    def test(spec):
        calls[0] += 1
        return _fails_same(spec, v["op_id"], want, pyc)

    if not test(best):
        return run  # does not reproduce once truncated: keep the original spec
    hist = list(range(len(best["ops"]) - 1))
    n = 2
    while len(hist) >= 1 and calls[0] < budget:
        chunk = max(1, len(hist) // n)
        reduced = False
        for s in range(0, len(hist), chunk):
            keep = hist[:s] + hist[s + chunk:]
            cand = copy.deepcopy(best)
            cand["ops"] = [best["ops"][i] for i in keep] + [best["ops"][-1]]
            cand["env"]["skew"] = [best["env"]["skew"][i] for i in keep] + [best["env"]["skew"][-1]]
            if calls[0] >= budget:
                break
            if test(cand):
                # re-index
                best = cand
                hist = list(range(len(best["ops"]) - 1))
                n = max(n - 1, 2)
                reduced = True
                break
        if not reduced:
            if chunk == 1:
                break
            n = min(n * 2, len(hist))
    for simplify in ("faults", "skew", "gc", "reuse"):
        if calls[0] >= budget:
            break
        cand = copy.deepcopy(best)
        if simplify == "faults":
            for op in cand["ops"]:
                op.pop("fault", None)
        elif simplify == "skew":
            cand["env"]["skew"] = [0] * len(cand["ops"])
        elif simplify == "gc":
            cand["env"]["gc"] = "default"
        else:
            for op in cand["ops"]:
                op.pop("reuse", None)
        if jdump(cand) != jdump(best) and test(cand):
            best = cand
    return best


# ------------------------------------------------------------------ script shrinking (translate targets)

def _stmt_paths(tree) -> list[tuple]:
    """Paths (list objects, index) of every statement inside function bodies, innermost last."""
    import ast

    out = []

    def walk(body):
        for i, st in enumerate(body):
            out.append((body, i))
            for fld in ("body", "orelse"):
                sub = getattr(st, fld, None)
                if isinstance(sub, list) and sub and isinstance(sub[0], ast.stmt):
                    walk(sub)

    for node in tree.body:
        if isinstance(node, ast.FunctionDef):
            walk(node.body)
    return out


def minimise_script(op: dict, still_fails, budget: int = 24) -> dict:
    """Greedy statement deletion on the script source of a translate operation while `still_fails(op')` holds."""
    import ast

    from dsim.c14.pools import with_id

    best = copy.deepcopy(op)
    try:
        tree = ast.parse(best["src"])
    except SyntaxError:
        return best
    calls = 0
    progress = True
    while progress and calls < budget:
        progress = False
        paths = _stmt_paths(tree)
        for body, i in reversed(paths):
            if calls >= budget:
                break
            if len(body) <= 1 or isinstance(body[i], ast.Return):
                continue
            removed = body.pop(i)
            cand = copy.deepcopy(best)
            try:
                cand["src"] = ast.unparse(tree)
            except Exception:  # noqa: BLE001
                body.insert(i, removed)
                continue
            with_id(cand)
            calls += 1
            if still_fails(cand):
                best = cand
                progress = True
                break  # paths are stale after a deletion: recompute
            body.insert(i, removed)
        # also try dropping whole top-level helper functions / assignments
        if not progress:
            for i in range(len(tree.body) - 1, -1, -1):
                if calls >= budget:
                    break
                node = tree.body[i]
                if isinstance(node, (ast.Import, ast.ImportFrom)):
                    continue
                if isinstance(node, ast.FunctionDef) and node.name in (best.get("fns") or []):
                    continue
                removed = tree.body.pop(i)
                cand = copy.deepcopy(best)
                cand["src"] = ast.unparse(tree)
                with_id(cand)
                calls += 1
                if still_fails(cand):
                    best = cand
                    progress = True
                    break
                tree.body.insert(i, removed)
    return best


def _shrink_translate_doc(doc: dict, cls: str, pyc: str, repo: str) -> dict:
    """Shrink the script of a translate target for seed-dependent / globals-leak / repeat-call-differs replays.
    Only when the violation also shows in plain single-operation processes (otherwise the exact reference specs stay)."""
    def env(h):
        return {"hashseed": h, "gc": "default", "repo": repo, "skew": [0], "aslr_off": True}

    if cls == "seed-dependent":
        op, hs = doc["op"], doc["hashseeds"]
        if op["kind"] != "translate":
            return doc

        def fails(o):
            res = []
            for h in hs:
                r = launcher.launch({"mode": "sequential", "env": env(h), "ops": [o]}, pyc, 300)
                if "error" in r or r["log"][0].get("status") != "ok":
                    return False
                res.append(canon(r["log"][0]))
            return len(set(res)) > 1

        if not fails(op):
            return doc
        small = minimise_script(op, fails)
        return {"op": small, "hashseeds": hs, "shrunk_from_lines": op["src"].count("\n") + 1, "shrunk_to_lines": small["src"].count("\n") + 1}
    if cls in ("globals-leak", "repeat-call-differs"):
        spec = doc["spec"]
        if len(spec["ops"]) != 1 or spec["ops"][0]["kind"] != "translate":
            return doc
        op = spec["ops"][0]

        def fails(o):
            r = launcher.launch({"mode": "sequential", "env": spec["env"], "ops": [o]}, pyc, 300)
            return "error" not in r and any(x["class"] == cls for x in internal_violations(o, r["log"][0]))

        if not fails(op):
            return doc
        small = minimise_script(op, fails)
        return {"spec": {"mode": "sequential", "env": spec["env"], "ops": [small]},
                "shrunk_from_lines": op["src"].count("\n") + 1, "shrunk_to_lines": small["src"].count("\n") + 1}
    return doc


# ------------------------------------------------------------------ replay

def replay_doc(doc: dict, pyc: str) -> tuple[bool, str]:
    cls = doc["expect"]["class"]
    repo = os.environ.get("VERIF_REPO", "/repo")
    if cls == "seed-dependent":
        # exact replay: the two pristine reference processes of the check, re-executed spec for spec (an address-order
        # dependence only reproduces when the whole heap history is the same), compared on the target operation
        res = []
        for h, spec in zip(doc["hashseeds"], doc.get("ref_specs") or [None, None]):
            if spec is None:
                spec = {"mode": "sequential", "env": {"hashseed": h, "gc": "default", "repo": repo, "skew": [0], "aslr_off": True},
                        "ops": [doc["op"]]}
            spec["env"]["repo"] = repo
            o = launcher.launch(spec, pyc, 900)
            if "error" in o:
                return False, o["error"]
            rec = next((r for r in o["log"] if r["id"] == doc["op"]["id"]), o["log"][0])
            res.append(canon(rec))
        return len(set(res)) > 1, f"results under hash seeds {doc['hashseeds']}: {[r[1][:80] for r in res]}"
    if cls in ("globals-leak", "repeat-call-differs"):
        spec = doc["spec"]
        spec["env"]["repo"] = repo
        o = launcher.launch(spec, pyc, 300)
        if "error" in o:
            return False, o["error"]
        iv = internal_violations(spec["ops"][-1], o["log"][-1])
        return any(x["class"] == cls for x in iv), f"{o['log'][-1].get('result')}"
    # history-dependent / failure-differs: the run's last op vs the same op alone in a fresh process
    spec = doc["spec"]
    spec["env"]["repo"] = repo
    o = launcher.launch(spec, pyc, 300)
    if "error" in o:
        return False, o["error"]
    last = o["log"][-1]
    alone = doc.get("ref_spec") or {
        "mode": "sequential", "env": {"hashseed": spec["env"]["hashseed"], "gc": "default", "repo": repo, "skew": [0], "aslr_off": True},
        "ops": [{k: v for k, v in spec["ops"][-1].items() if k not in ("fault", "reuse")}]}
    alone["env"]["repo"] = repo
    o2 = launcher.launch(alone, pyc, 900)
    if "error" in o2:
        return False, o2["error"]
    ref_rec = next((r for r in o2["log"] if r["id"] == spec["ops"][-1]["id"]), o2["log"][0])
    differ = canon(last) != canon(ref_rec) and not last.get("faulted")
    return differ, f"after history: {canon(last)[1][:160]} | pristine process: {canon(ref_rec)[1][:160]}"


def replay(path: str) -> int:
    doc = json.load(open(path))
    root = common.scratch_root()
    pyc = os.path.join(root, "pyc")
    try:
        launcher.warm(pyc, os.environ.get("VERIF_REPO", "/repo"))
        hit, text = replay_doc(doc, pyc)
    finally:
        common.rmtree(root)
    log(f"replay {path}: {text}")
    if hit:
        log(f"VIOLATION property={PROP} replay={path}")
        return EXIT_VIOLATION
    log("replay did not reproduce the recorded violation")
    return EXIT_OK


# ------------------------------------------------------------------ check

def check(tier_name: str, seed: int, max_runs: int | None = None) -> int:
    sw = common.Stopwatch()
    tier = dict(TIERS[tier_name])
    if max_runs:
        tier["runs"] = max_runs
        tier["targets"] = min(tier["targets"], max(20, max_runs))
    repo = os.environ.get("VERIF_REPO", "/repo")
    workers = common.default_workers()
    root = common.scratch_root()
    pyc = os.path.join(root, "pyc")
    findings = common.load_findings()
    harness_errors: list[str] = []
    harness_notes: list[str] = []
    reported: list[tuple[str, dict]] = []
    known_hits: collections.Counter = collections.Counter()
    try:
        warm_s = launcher.warm(pyc, repo)
        sys.path.insert(0, repo)
        from dsim.c14.pools import Pools

        pools = Pools(repo)
        targets = gen_targets(seed, tier, pools)
        tmap = {t["id"]: t for t in targets}
        phase_s = {"warm_up_and_generation": round(sw.elapsed(), 1)}
        ref, errs, spec_of = reference_phase(targets, tier, pyc, repo, workers)
        phase_s["reference_processes"] = round(sw.elapsed() - sum(phase_s.values()), 1)
        harness_errors += errs
        h0 = tier["ref_seeds"][0]
        candidates: list[dict] = []   # {"class", "sig", "doc"}

        # ---- seed invariance + internal consistency on the pristine references
        seed_dep: set = set()
        crashing: set = set()
        ref_evals = 0
        for tid, t in tmap.items():
            recs = {h: ref[h].get(tid) for h in tier["ref_seeds"] if tid in ref[h]}
            ref_evals += len(recs)
            crashed = [h for h, r in recs.items() if r.get("status") == "crashed"]
            if crashed:
                # the pristine process dies on this input (e.g. onnx's C++ shape inference aborts on an attribute value a
                # generated operator variant made invalid): not a result to compare, and it must not take a whole
                # simulated process down later, so the target is dropped from the batch (counted in the evidence)
                crashing.add(tid)
                continue
            cs = {h: canon(r) for h, r in recs.items()}
            if len(set(cs.values())) > 1:
                seed_dep.add(tid)
                hs = sorted(cs, key=lambda h: tier["ref_seeds"].index(h))
                h_a = hs[0]
                h_b = next(h for h in hs if cs[h] != cs[h_a])
                candidates.append({"class": "seed-dependent", "sig": {"class": "seed-dependent", "kind": t["kind"], "family": t.get("family")},
                                   "doc": {"op": t, "hashseeds": [h_a, h_b], "ref_specs": [spec_of[(h_a, tid)], spec_of[(h_b, tid)]]}, "detail": f"{t['kind']} {t.get('family')}: differs between pristine processes with PYTHONHASHSEED={h_a} and {h_b} "
                                                                   f"(pre-import heap skew {REF_PRE_SKEW[tier['ref_seeds'].index(h_a) % len(REF_PRE_SKEW)]} and "
                                                                   f"{REF_PRE_SKEW[tier['ref_seeds'].index(h_b) % len(REF_PRE_SKEW)]})"})
            for h, r in recs.items():
                for iv in internal_violations(t, r):
                    candidates.append({"class": iv["class"], "sig": {"class": iv["class"], "kind": t["kind"], "family": t.get("family")},
                                       "doc": {"spec": {"mode": "sequential", "env": {"hashseed": h, "gc": "default", "repo": repo, "skew": [0], "aslr_off": True},
                                                        "ops": [t]}}, "detail": f"{t.get('family')}: {iv['keys']}"})
                break

        if crashing:
            targets = [t for t in targets if t["id"] not in crashing]
            tmap = {t["id"]: t for t in targets}

        # ---- fresh-interpreter cross-check of the fork-based references
        fr = Rng(seed).sub("fresh")
        fresh_ids = fr.sample(sorted(tmap), min(tier["fresh_checks"], len(tmap)))
        fresh_specs = [{"mode": "sequential", "env": {"hashseed": h0, "gc": "default", "repo": repo, "skew": [0], "aslr_off": True, "fingerprint": False},
                        "ops": [{k: v for k, v in tmap[i].items() if k != "fault"}]} for i in fresh_ids]
        fresh_out = _par(fresh_specs, pyc, workers, 600, None)
        fresh_diffs = 0
        for tid, o in zip(fresh_ids, fresh_out):
            if "error" in o:
                harness_errors.append(f"fresh reference for {tid}: {o['error'][:300]}")
            elif tid in ref[h0] and canon(o["log"][0]) != canon(ref[h0][tid]) and tid not in seed_dep:
                fresh_diffs += 1
                harness_errors.append(f"fork-based and fresh-interpreter references disagree for target {tid} ({tmap[tid]['kind']} {tmap[tid].get('family')})")

        # ---- histories
        failing = {tid for tid, rec in ref[h0].items() if rec.get("status") == "raised"}
        # operations during which nodes are replaced (the traced "model is being changed now" markers fired); where the
        # markers never fire for a kind of operation, fall back to "its result differs from its input"
        changing = {tid for tid, rec in ref[h0].items() if rec.get("marks")}
        changing |= {tid for tid, rec in ref[h0].items() if rec.get("changed") and tmap[tid]["kind"] != "convert"}
        runs = gen_runs(seed, tier, targets, repo, failing, changing)
        for run in runs:  # resolve fault positions from the measured call counts
            for op in run["ops"]:
                f = op.get("fault")
                if f is not None:
                    rrec = ref[h0].get(op["id"]) or {}
                    f["exc"] = FAULT_EXCS[int(f["frac"] * 10**6) % len(FAULT_EXCS)]
                    calls = rrec.get("calls") or 0
                    marks = rrec.get("marks") or []
                    if marks and f["frac"] < 0.6:
                        # aim at the window right after the model was changed (state written, clean-up not yet run):
                        # a mark chosen by frac, then up to 1500 calls later chosen by the finer digits of frac
                        m = marks[int(f["frac"] / 0.6 * len(marks)) % len(marks)]
                        off = int((f["frac"] * 7919) % 1 * min(1500, max(1, calls - m)))
                        f["k"], f["aim"] = min(calls - 1, m + off), "after-change"
                    else:
                        f["k"], f["aim"] = (int(f["frac"] * calls) if calls else 0), "uniform"
        outs = _par(runs, pyc, workers, 600, None)
        phase_s["history_runs"] = round(sw.elapsed() - sum(phase_s.values()), 1)
        agg = collections.Counter()
        fault_sites: set = set()
        states: set = set()
        hist_sigs: set = set()
        changed_by_kind: collections.Counter = collections.Counter()
        for run, o in zip(runs, outs):
            if "error" in o:
                harness_errors.append(f"run {run['run']}: {o['error'][:400]}")
                continue
            agg["runs"] += 1
            viol, st = judge_run(run, o, ref, seed_dep)
            agg.update(st)
            for rec in o["log"]:
                if rec.get("changed"):
                    agg["ops_that_changed_their_model"] += 1
                    changed_by_kind[rec["kind"]] += 1
                if rec.get("fault_site"):
                    fault_sites.add(rec["fault_site"])
                if rec.get("state"):
                    states.add(rec["state"])
                for iv in internal_violations(run["ops"][rec["i"]], rec):
                    if not rec.get("faulted"):
                        sp = copy.deepcopy(run)
                        sp["ops"] = sp["ops"][:rec["i"] + 1]
                        candidates.append({"class": iv["class"], "sig": {"class": iv["class"], "kind": rec["kind"], "family": run["ops"][rec["i"]].get("family")},
                                           "doc": {"spec": sp}, "detail": f"{iv['keys']}"})
            checked_after = 0
            for i, rec in enumerate(o["log"]):
                if i >= 1 and not rec.get("faulted"):
                    checked_after += 1
            if checked_after:
                hist_sigs.add(sha(jdump([[op["id"], bool(rec.get("faulted"))] for op, rec in zip(run["ops"], o["log"])]).encode()
                                  + jdump([run["env"]["hashseed"], run["env"]["gc"], run["env"]["skew"], run["env"].get("pre_skew")]).encode()))
            for v in viol:
                candidates.append({"class": v["class"], "sig": {"class": v["class"], "kind": v["kind"], "family": run["ops"][v["op_index"]].get("family")},
                                   "run": run, "v": v, "detail": f"run {run['run']} op {v['op_index']} ({v['kind']}): got {str(v['got'])[:140]} want {str(v['want'])[:140]}"})

        # ---- determinism self-check: re-execute a sample of runs, logs must be identical
        rr = Rng(seed).sub("redo")
        redo_idx = rr.sample(list(range(len(runs))), min(tier["redo"], len(runs)))
        redo_out = _par([runs[i] for i in redo_idx], pyc, workers, 600, None)
        redo_diffs = addr_diffs = 0
        for i, o2 in zip(redo_idx, redo_out):
            o1 = outs[i]
            if "error" in o1 or "error" in o2:
                continue
            if jdump(o1["log"]) != jdump(o2["log"]):
                redo_diffs += 1
                what = []
                for a, b in zip(o1["log"], o2["log"]):
                    for k in sorted(set(a) | set(b)):
                        if a.get(k) != b.get(k):
                            what.append(f"op {a.get('i')} {a.get('kind')} field {k}: {str(a.get(k))[:120]} != {str(b.get(k))[:120]}")
                harness_errors.append(f"determinism: run {i} produced a different event log when re-executed: {what[:3]}")
            elif o1.get("addr_probe") != o2.get("addr_probe"):
                addr_diffs += 1

        # ---- triage, minimise, write replays, confirm in a fresh process
        seen = set()
        budget_left = 6
        for c in candidates:
            f = next((f for f in findings if f.matches(PROP, c["sig"])), None)
            if f is not None:
                known_hits[f.text] += 1
                continue
            key = jdump(c["sig"])
            if key in seen:
                continue
            seen.add(key)
            if budget_left <= 0:
                continue
            budget_left -= 1
            if "run" in c:
                spec = minimise_history(c["run"], c["v"], ref, pyc, tier["min_budget"])
                doc = {"spec": spec, "original_history_len": c["v"]["op_index"], "minimised_history_len": len(spec["ops"]) - 1,
                       "ref_spec": spec_of.get((h0, c["v"]["op_id"]))}
            else:
                doc = c["doc"]
                try:
                    doc = _shrink_translate_doc(doc, c["class"], pyc, repo)
                except Exception as e:  # noqa: BLE001 - shrinking is best effort; the unshrunk replay is still exact
                    harness_notes.append(f"script shrinking skipped: {type(e).__name__}: {e}")
            doc.update({"property": PROP, "kit": common.KIT_VERSION, "seed": seed,
                        "expect": {"class": c["class"], "signature": c["sig"], "detail": c["detail"]}})
            path = common.write_replay(PROP, f"{seed}-{c['class']}-{sha(key.encode())[:8]}", doc)
            p = subprocess.run([sys.executable, "-m", "dsim", "replay", path], cwd=common.VERIF, capture_output=True, text=True,
                               timeout=900, env={**os.environ, "VERIF_REPO": repo})
            if f"VIOLATION property={PROP}" in p.stdout:
                reported.append((path, c))
            else:
                harness_errors.append(f"{c['class']} ({c['detail'][:200]}) did not reproduce from {path}: {p.stdout[-300:]}")
    finally:
        common.rmtree(root)

    wall = sw.elapsed()
    evals = agg["checked"] + ref_evals
    sample_runs = []
    for run, o in list(zip(runs, outs))[:2]:
        if "error" in o:
            continue
        sample_runs.append({"env": run["env"], "ops": [{"kind": op["kind"], "family": op.get("family"), "id": op["id"],
                                                        "fault": op.get("fault"), "reuse": op.get("reuse")} for op in run["ops"]],
                            "log": [{k: rec.get(k) for k in ("i", "status", "faulted", "fault_site", "calls")} for rec in o["log"]]})
    # one operation written out in full (truncated), so a reader sees what a target looks like
    for sr, (run, o) in zip(sample_runs, [(r, o) for r, o in zip(runs, outs) if "error" not in o]):
        op0 = run["ops"][0]
        body = op0.get("src") or (op0.get("model") or {}).get("text") or jdump(op0.get("model"))
        sr["first_operation_in_full"] = {k: v for k, v in op0.items() if k not in ("src", "model")}
        sr["first_operation_in_full"]["source_or_model"] = str(body)[:1800]
    coverage = {
        "evaluations": evals,
        "distinct_nontrivial": len(hist_sigs),
        "rule": "A run = one simulated long-lived process: seeded PYTHONHASHSEED, pinned address space (setarch -R), heap skew, GC knob, "
                "and a seeded history of 2..9 translate/optimize/rewrite/convert operations on shared long-lived objects, some with an "
                "injected callee exception. evaluations = operation results compared with a pristine-process reference (history phase) plus "
                "reference results compared across hash seeds. distinct_nontrivial = distinct (operation-id sequence with fault marks, "
                "environment) signatures in which at least one non-faulted operation was checked after at least one earlier operation.",
        "samples": sample_runs,
        "exhaustive": False,
        "runs": agg["runs"], "runs_planned": len(runs), "targets": len(targets), "targets_by_kind": dict(collections.Counter(t["kind"] for t in targets)),
        "reference_environments": [{"PYTHONHASHSEED": h, "pre_import_heap_skew": REF_PRE_SKEW[i % len(REF_PRE_SKEW)]}
                                   for i, h in enumerate(tier["ref_seeds"])],
        "run_environments": {"hash_seeds_distinct": len({r["env"]["hashseed"] for r in runs}),
                             "pre_import_heap_skews": dict(collections.Counter(str(r["env"].get("pre_skew")) for r in runs)),
                             "gc_knobs": dict(collections.Counter(r["env"]["gc"] for r in runs))},
        "fault_exception_classes": dict(collections.Counter(op["fault"].get("exc", "?") for r in runs for op in r["ops"] if op.get("fault"))),
        "fault_aim": dict(collections.Counter(op["fault"].get("aim", "?") for r in runs for op in r["ops"] if op.get("fault"))),
        "reference_results": ref_evals, "seed_dependent_targets": len(seed_dep),
        "ops_executed": agg["ops"], "ops_checked_vs_reference": agg["checked"], "failing_targets_checked": agg["checked_failing_target"],
        "faults": {"callee_exception": {"configured": agg["fault_configured"], "fired": agg["fault_fired"],
                                        "propagated": agg["fault_propagated"], "swallowed": agg["fault_swallowed"]}},
        "probe_ops_that_changed_their_model": dict(changed_by_kind),
        "probe_templates": dict(collections.Counter(r["env"].get("template") for r in runs)),
        "fault_sites_distinct": len(fault_sites), "fault_sites_sample": sorted(fault_sites)[:25],
        "global_state_fingerprints_reached": len(states),
        "fresh_interpreter_crosschecks": {"n": len(fresh_ids), "diffs": fresh_diffs},
        "determinism_redo": {"runs": len(redo_idx), "diffs": redo_diffs, "address_probe_diffs": addr_diffs,
                             "note": "address_probe = id() of an object allocated after the last operation; equal probes mean the whole "
                                     "heap history replayed bit-for-bit (needed only to replay id()-order-dependent failures)"},
        "runs_per_hour": int(agg["runs"] / wall * 3600) if wall else 0,
        "simulated_time": "n/a: no clock is read by the code under test; 0 timers. Logical steps = operations.",
        "warm_up_s": round(warm_s, 1), "phase_wall_s": phase_s,
        "known_findings_hit": dict(known_hits),
        "harness_errors": harness_errors[:10],
        "real_vs_stub": {"real": ["CPython", "onnxscript (from the working tree)", "onnx_ir", "onnx", "numpy", "protobuf"],
                         "simulated/pinned": ["PYTHONHASHSEED", "address-space layout (ASLR off + heap skew)", "GC pacing", "process environment (env -i)",
                                              "BLAS/OMP threads pinned to 1", "callee failures (sys.settrace call-boundary seam)"]},
    }
    assumptions = [
        "BLAS/OMP single-threaded as pinned; byte code loaded from a warmed private cache",
        "a faulted operation (injected exception fired, propagated or swallowed) owes no result; every later operation is checked",
        "exception messages are not 'results' (they embed addresses); failing targets are compared by exception class",
        "eager-mode values after mutating globals are outside the oracle (protos only), DESIGN.md section 6.4",
    ]
    common.write_evidence(PROP, tier_name, seed, "exploration", coverage, assumptions, wall, len(reported))
    run_digest = sha(jdump([[o.get("log"), o.get("error")] for o in outs]).encode()
                     + jdump({str(h): {k: canon(v) for k, v in sorted(ref[h].items())} for h in tier["ref_seeds"]}).encode())
    log(f"RUN-DIGEST {PROP} {run_digest}")
    for text, n in sorted(known_hits.items()):
        log(f"KNOWN-FINDING: property={PROP} {text} [{n} occurrences this run]")
    log(f"C14 {tier_name}: seed={seed} targets={len(targets)} runs={agg['runs']}/{len(runs)} checked_ops={agg['checked']} "
        f"ref_results={ref_evals} faults fired={agg['fault_fired']}/{agg['fault_configured']} (swallowed {agg['fault_swallowed']}) "
        f"distinct_histories={len(hist_sigs)} states={len(states)} wall={wall:.1f}s")
    for h in harness_errors[:12]:
        log("HARNESS-ERROR:", h)
    for path, c in reported:
        log(f"  violation: {c['sig']} {c['detail'][:300]}")
        log(f"VIOLATION property={PROP} replay={path}")
    if reported:
        return EXIT_VIOLATION
    if harness_errors:
        return EXIT_HARNESS
    return EXIT_OK
