"""C14 node: one simulated long-lived process.

Reads a run spec (JSON) on stdin, executes its operations in order on long-lived
decorator / pass / rule-set / OnnxFunction objects, and writes the event log (JSON)
to the original stdout.  Launched by dsim.c14.launcher through
`env -i ... setarch -R python -m dsim.c14.node`, so that the hash seed and the address
space are chosen by the simulator.  Everything executed here is real code.

No PRNG and no clock in this file: every choice arrives resolved in the spec.
"""
from __future__ import annotations

import gc
import hashlib
import json
import linecache
import os
import sys
import traceback


def _sha(b: bytes) -> str:
    return hashlib.sha256(b).hexdigest()[:24]


def _scrub(text: str) -> str:
    """Messages are informational only; addresses in them must not make two logs differ."""
    import re

    scratch = os.environ.get("DSIM_SCRATCH")
    if scratch:
        text = text.replace(scratch, "<scratch>")
    return re.sub(r"0x[0-9a-fA-F]+", "0x?", text)


class InjectedFault(RuntimeError):
    """'That callee raised': injected on entry to the k-th traced call."""


# the same fault as other exception classes a callee may legitimately raise: typed handlers in the code under test
# (except FileNotFoundError / IndexError / NameError / AttributeError / ValueError / TypeError ...) see them too
EXC_KINDS = {"RuntimeError": InjectedFault}
for _base in (ValueError, TypeError, KeyError, IndexError, AttributeError, NotImplementedError, FileNotFoundError, MemoryError,
              AssertionError, OSError):
    EXC_KINDS[_base.__name__] = type("Injected" + _base.__name__, (_base,), {"__doc__": "injected callee failure"})
INJECTED = tuple(EXC_KINDS.values())


# ------------------------------------------------------------------ call-boundary fault seam

class CallSeam:
    """sys.settrace hook that counts 'call' events in code under test and can raise at the k-th."""

    def __init__(self, prefixes: tuple[str, ...]):
        self.prefixes = prefixes
        self.count = 0
        self.k = None
        self.exc = InjectedFault
        self.fired = None
        self.marks: list[int] = []

    # entering one of these means "the model is being changed now": the call indices are reported so that the
    # simulator can aim faults at the window in which per-call state has been written but not yet cleaned up
    MARKERS = frozenset({"replace_nodes_and_values", "replace_all_uses_with"})

    paused = False   # harness set-up (building the input model, constructing long-lived objects) is not part of the operation

    def _trace(self, frame, event, arg):
        if event == "call" and not self.paused:
            fn = frame.f_code.co_filename
            if fn.startswith(self.prefixes):
                c = self.count
                self.count = c + 1
                if frame.f_code.co_name in self.MARKERS and len(self.marks) < 64:
                    self.marks.append(c)
                if c == self.k:
                    self.fired = f"{os.path.basename(fn)}:{frame.f_code.co_name}"
                    raise self.exc(f"injected at call #{c} ({self.fired})")
        return None

    def start(self, k, exc="RuntimeError"):
        self.count, self.k, self.fired, self.marks = 0, k, None, []
        self.exc = EXC_KINDS.get(exc, InjectedFault)
        sys.settrace(self._trace)

    def stop(self):
        sys.settrace(None)


# ------------------------------------------------------------------ runtime

class Runtime:
    def __init__(self, spec: dict):
        self.spec = spec
        self.long: dict = {}       # long-lived pass / rule-set / decorator objects
        self.modules: dict = {}    # src hash -> namespace of a translated script module
        self.junk: list = []
        repo = spec["env"].get("repo", "/repo")
        import onnx
        import onnx_ir

        self.seam = CallSeam((
            os.path.join(repo, "onnxscript") + os.sep,
            os.path.dirname(onnx_ir.__file__) + os.sep,
            os.path.join(os.path.dirname(onnx.__file__), "reference") + os.sep,
        ))

    def setup(self):
        """Context: harness set-up inside an operation (constructing a long-lived pass / rule-set object): not traced."""
        import contextlib

        @contextlib.contextmanager
        def cm():
            prev = self.seam.paused
            self.seam.paused = True
            try:
                yield
            finally:
                self.seam.paused = prev

        return cm()

    # -------------------------------------------------------------- heap skew
    def skew(self, n: int):
        """Shift pymalloc pools / arenas so that later id()s differ: allocate n mixed objects, free a part."""
        if n <= 0:
            return
        a = [object() for _ in range(n)]
        b = [[i] for i in range(n // 3)]
        c = [bytearray(40 + (i % 7) * 16) for i in range(n // 5)]
        d = [{"k": i} for i in range(n // 7)]
        self.junk.append((a[::2], b[::3], c[1::2], d))
        del a, b, c

    # -------------------------------------------------------------- models
    def load_model_proto(self, m: dict):
        # preparing the operation's input (parsing / building / translating the model) is harness set-up: no calls are
        # counted and no fault is injected there, so a fault can never leave a damaged *input* behind for later operations
        self.seam.paused = True
        try:
            mp = self._load_model_proto(m)
            self._in_norm = self._norm(mp)
        finally:
            self.seam.paused = False
        return mp

    @staticmethod
    def _as_ir(m):
        """An ir.Model for IR-level entry points (models with external initializers are already ir.Models)."""
        import onnx
        import onnx_ir as ir

        return ir.serde.deserialize_model(m) if isinstance(m, onnx.ModelProto) else m

    @staticmethod
    def _norm(model):
        """Digest of the model after a round trip through the IR (so proto- and IR-level results compare)."""
        import onnx
        import onnx_ir as ir

        try:
            if isinstance(model, onnx.ModelProto):
                model = ir.serde.deserialize_model(model)
            return _sha(ir.serde.serialize_model(model).SerializeToString(deterministic=True))
        except Exception:  # noqa: BLE001
            return None

    def _load_model_proto(self, m: dict):
        import onnx

        if m["pool"] == "script":
            # a model built by translating a module-level @script function of the given source text
            h = _sha(m["src"].encode())
            if ("scriptmodel", h) not in self.long:
                import types

                modname = f"dsim_modelsrc_{h}"
                fname = f"<dsim-modelsrc-{h}>"
                linecache.cache[fname] = (len(m["src"]), None, m["src"].splitlines(True), fname)
                mod = types.ModuleType(modname)
                mod.__file__ = fname
                sys.modules[modname] = mod
                # test-model modules may draw their weights from numpy's / random's global generators at import time: the
                # model is the *input* of the operation and has to be the same in every simulated process
                import random

                import numpy

                numpy.random.seed(0)
                random.seed(0)
                exec(compile(m["src"], fname, "exec"), mod.__dict__)  # noqa: S102
                self.long[("scriptmodel", h)] = mod
            ns = self.long[("scriptmodel", h)].__dict__
            kw = {}
            if m.get("it"):
                kw["input_types"] = eval(m["it"], ns)  # noqa: S307 - type expressions harvested from the repo's own tests
            if m.get("ot"):
                kw["output_types"] = eval(m["ot"], ns)  # noqa: S307
            mp = ns[m["fn"]].to_model_proto(**kw)
            if m.get("force_opset"):
                # what the repository's own fusion tests do: declare a newer default-domain opset on a model built with an older one
                for oi in mp.opset_import:
                    if oi.domain == "":
                        oi.version = int(m["force_opset"])
            return mp
        if m["pool"] == "compose":
            # several small models side by side in one graph (values prefixed per part): several independent matches of the
            # same rule, different rules in one traversal, several outputs, duplicated initializers
            import onnx
            import onnx_ir as ir

            parts = [ir.serde.serialize_model(ir.from_onnx_text(t)) for t in m["texts"]]
            out = onnx.ModelProto()
            out.CopyFrom(parts[0])
            del out.graph.node[:], out.graph.input[:], out.graph.output[:], out.graph.initializer[:], out.graph.value_info[:]
            out.graph.name = "composed"
            for k, part in enumerate(parts):
                pre = f"p{k}_"
                g = part.graph
                for coll in (g.input, g.output, g.value_info):
                    for vi in coll:
                        vi.name = pre + vi.name
                for t in g.initializer:
                    t.name = pre + t.name
                for n in g.node:
                    for i, nm in enumerate(n.input):
                        if nm:
                            n.input[i] = pre + nm
                    for i, nm in enumerate(n.output):
                        if nm:
                            n.output[i] = pre + nm
                    if n.name:
                        n.name = pre + n.name
                out.graph.node.extend(g.node)
                out.graph.input.extend(g.input)
                out.graph.output.extend(g.output)
                out.graph.initializer.extend(g.initializer)
                out.graph.value_info.extend(g.value_info)
            return out
        if m["pool"] == "text":
            import onnx_ir as ir

            model = ir.from_onnx_text(m["text"])
            if m.get("node_meta"):
                # exporter-style per-node metadata (the text format cannot carry it): every node gets a namespace and one
                # further key; rules that replace several nodes have to merge them
                for i, n in enumerate(model.graph):
                    n.metadata_props["namespace"] = f"root/block{i % 3}/{n.op_type}_{i}"
                    n.metadata_props[("pkg.torch.onnx.class_hierarchy", "pkg.torch.onnx.fx_node", "stack")[i % 3]] = f"v{i}"
            if m.get("retype"):
                # the same model in another floating-point precision (an fp16 / bf16 / double export of the same network):
                # every FLOAT value and initializer is re-typed
                import ml_dtypes
                import numpy as np

                new = ir.DataType[m["retype"]]
                npdt = {"FLOAT16": np.float16, "DOUBLE": np.float64, "BFLOAT16": ml_dtypes.bfloat16}[m["retype"]]

                def retype_graph(g):
                    for v in list(g.inputs) + list(g.outputs) + [o for n in g for o in n.outputs] + list(g.initializers.values()):
                        if v.dtype == ir.DataType.FLOAT:
                            v.dtype = new
                        t = v.const_value
                        if t is not None and t.dtype == ir.DataType.FLOAT:
                            v.const_value = ir.tensor(t.numpy().astype(npdt), dtype=new, name=t.name)
                    for n in g:
                        for a in n.attributes.values():
                            if a.type == ir.AttributeType.GRAPH:
                                retype_graph(a.value)
                            elif a.type == ir.AttributeType.TENSOR and a.value.dtype == ir.DataType.FLOAT:
                                n.attributes[a.name] = ir.AttrTensor(a.name, ir.tensor(a.value.numpy().astype(npdt), dtype=new, name=a.value.name))

                retype_graph(model.graph)
            ext = m.get("external")
            scratch = os.environ.get("DSIM_SCRATCH")
            if ext and scratch:
                # a model loaded with external data: its initializers live in "<base_dir>/weights.bin" — and that file may
                # be missing (a model loaded without its weights). base_dir differs per model, the relative location not.
                import numpy as np

                base = os.path.join(scratch, "m" + _sha(m["text"].encode() + repr(ext).encode())[:10])
                os.makedirs(base, exist_ok=True)
                off, blobs = 0, []
                for name, v in model.graph.initializers.items():
                    t = v.const_value
                    if t is None or t.dtype == ir.DataType.STRING:
                        continue
                    raw = t.tobytes()
                    v.const_value = ir.ExternalTensor("weights.bin", off, len(raw), t.dtype, shape=t.shape, name=name, base_dir=base)
                    blobs.append(raw)
                    off += len(raw)
                if ext.get("present", True):
                    with open(os.path.join(base, "weights.bin"), "wb") as fh:
                        fh.write(b"".join(blobs))
                return model   # handed over as an ir.Model: a ModelProto would lose base_dir
            return ir.serde.serialize_model(model)
        if m["pool"] == "onnx_backend":
            base = os.path.join(os.path.dirname(onnx.__file__), "backend", "test", "data", m["path"])
            mp = onnx.load(os.path.join(base, "model.onnx"))
            if m.get("lift"):
                from onnx import numpy_helper  # noqa: F401

                inits = []
                names = [i.name for i in mp.graph.input]
                have = {i.name for i in mp.graph.initializer}
                for j, name in enumerate(names):
                    if j not in m["lift"]:
                        continue
                    pb = os.path.join(base, "test_data_set_0", f"input_{j}.pb")
                    if not os.path.exists(pb) or name in have:
                        continue
                    t = onnx.TensorProto()
                    with open(pb, "rb") as f:
                        data = f.read()
                    try:
                        t.ParseFromString(data)
                    except Exception:  # noqa: BLE001 - sequence/optional inputs are not tensors
                        continue
                    if not t.dims and not t.data_type:
                        continue
                    t.name = name
                    inits.append((name, t))
                lifted = {n for n, _ in inits}
                keep = [i for i in mp.graph.input if i.name not in lifted]
                del mp.graph.input[:]
                mp.graph.input.extend(keep)
                mp.graph.initializer.extend(t for _, t in inits)
            mut = m.get("attr_mut")
            if mut:
                # the same operator with another value of one attribute (often one its reference kernel does not support)
                node = mp.graph.node[mut["node"]]
                hit = [a for a in node.attribute if a.name == mut["attr"]]
                if hit:
                    a = hit[0]
                else:
                    a = node.attribute.add()
                    a.name = mut["attr"]
                if "int" in mut:
                    a.type = onnx.AttributeProto.INT
                    a.i = int(mut["int"])
                else:
                    a.type = onnx.AttributeProto.STRING
                    a.s = mut["str"].encode()
            return mp
        raise ValueError(m["pool"])

    # -------------------------------------------------------------- op kinds
    def op_translate(self, op: dict) -> dict:
        import onnxscript

        src = op["src"]
        h = _sha(src.encode())
        reuse = op.get("reuse") and h in self.modules
        if reuse:
            ns, fns = self.modules[h]
        else:
            scratch = os.environ.get("DSIM_SCRATCH")
            if op.get("shared_filename") and scratch:
                # a real file that is overwritten by each such script (an edited module that is re-imported, a notebook
                # cell file): source look-ups go through linecache's own staleness check, nothing is pre-seeded
                fname = os.path.join(scratch, "shared_module.py")
                with open(fname, "w", encoding="utf-8") as fh:
                    fh.write(src)
                self._n_shared = getattr(self, "_n_shared", 0) + 1
                os.utime(fname, (1_700_000_000 + self._n_shared, 1_700_000_000 + self._n_shared))  # a visible mtime step
            else:
                fname = f"<dsim-script-{h}-{len(self.modules)}>"
                linecache.cache[fname] = (len(src), None, src.splitlines(True), fname)
            import types

            modname = f"dsim_script_{h}_{len(self.modules)}"
            mod = types.ModuleType(modname)
            mod.__file__ = fname
            sys.modules[modname] = mod  # inspect.getmodule(f) must find the defining module
            ns = mod.__dict__
            if "DEC" in src:
                if "dec" not in self.long:
                    self.long["dec"] = onnxscript.script()
                ns["DEC"] = self.long["dec"]
            exec(compile(src, fname, "exec"), ns)  # noqa: S102 - the script under translation
            # the long-lived OnnxFunction objects under the names they were defined with: a later revisit (reuse) asks these
            # objects again, whatever the mutation step has rebound the module's names to in the meantime
            fns = [(k, v) for k, v in ns.items() if isinstance(v, onnxscript.OnnxFunction) and not k.startswith("_")]
            self.modules[h] = (ns, fns)
        only = op.get("fns")
        if only:
            fns = [(k, v) for k, v in fns if k in only]
        res: dict = {}
        rounds = 1 + int(op.get("repeat", 0))
        mutated = False
        for r in range(rounds):
            if r == 1 and op.get("mutate"):
                self._mutate_globals(ns)
                mutated = True
            for k, f in fns:
                calls = (("fp", f.to_function_proto), ("mp", f.to_model_proto))
                if op.get("mp_first"):
                    calls = calls[::-1]   # the model proto is asked for before the function proto ever was
                if (r == 1 and op.get("mp_kwargs") == "between") or (r == 0 and op.get("mp_kwargs") == "first"):
                    # calls WITH arguments, before the first default call or between rounds (their own results are not the
                    # subject): default calls must not care
                    from onnxscript.onnx_types import FLOAT

                    kws = [{"ir_version": 8}, {"io_types": FLOAT}, {"opset_version": 17}, {"opset_version": 21, "io_types": FLOAT}]
                    rot = (int(op["id"][:4], 16) + len(k)) % len(kws)   # which of them comes first differs per operation / function
                    for kw in kws[rot:] + kws[:rot]:
                        try:
                            f.to_model_proto(**kw)
                        except INJECTED:
                            raise
                        except Exception:  # noqa: BLE001
                            pass
                for tag, call in calls:
                    try:
                        d = _sha(call().SerializeToString(deterministic=True))
                    except INJECTED:
                        raise
                    except Exception as e:  # noqa: BLE001
                        d = f"EXC:{type(e).__name__}"
                    key = f"{k}.{tag}"
                    if r == 0:
                        res[key] = d
                    elif res[key] != d:
                        res[key + ".REPEAT"] = f"round{r}{'-after-mutation' if mutated else ''}:{d}"
        return res

    @staticmethod
    def _mutate_globals(ns: dict):
        """Post-decoration mutation of the globals the script may have referenced."""
        import numpy as np
        import onnxscript
        from onnxscript import values

        fn_names = [k for k, v in ns.items() if isinstance(v, onnxscript.OnnxFunction)]
        if len(fn_names) >= 3:
            # rebind the names of helper functions to *other* functions (all but the last-defined one, the entry function)
            helpers = fn_names[:-1]
            objs = [ns[k] for k in helpers]
            for k, o in zip(helpers, objs[1:] + objs[:1]):
                ns[k] = o
        for k, v in list(ns.items()):
            if k.startswith("__") or isinstance(v, onnxscript.OnnxFunction):
                continue
            if isinstance(v, values.Opset) and type(v) is not values.Opset:
                # an alias of a standard opset (e.g. `op`): rebind it to another version
                try:
                    import onnxscript.onnx_opset as oo

                    ns[k] = oo.opset13 if v.version != 13 else oo.opset14
                except Exception:  # noqa: BLE001
                    pass
                continue
            if isinstance(v, bool):
                ns[k] = not v
            elif isinstance(v, (int, float)):
                ns[k] = v * 2 + 3
            elif isinstance(v, list):
                v.append(7)
                if v:
                    v[0] = v[0] * 2 + 1 if isinstance(v[0], (int, float)) else v[0]
            elif isinstance(v, np.ndarray):
                if v.size and v.dtype.kind in "fiu":
                    v += 1
            elif isinstance(v, values.Opset):
                # rebind the alias to another version of the same domain
                try:
                    ns[k] = type(v)(v.domain, max(1, v.version - 1)) if type(v) is values.Opset else v
                except Exception:  # noqa: BLE001
                    pass
            elif isinstance(v, str):
                ns[k] = v + "_mutated"
            elif type(v).__name__ == "TensorProto":
                # a module-level TensorProto used as a constant: mutate it in place
                if len(v.float_data):
                    v.float_data[0] = v.float_data[0] + 41.0
                elif len(v.int64_data):
                    v.int64_data[0] = v.int64_data[0] + 41
                elif v.raw_data:
                    v.raw_data = bytes([(v.raw_data[0] + 1) % 256]) + v.raw_data[1:]

    def _serialize(self, model) -> str:
        import onnx
        import onnx_ir as ir

        self._out_norm = self._norm(model)
        if isinstance(model, onnx.ModelProto):
            return _sha(model.SerializeToString(deterministic=True))
        return _sha(ir.serde.serialize_model(model).SerializeToString(deterministic=True))

    def op_optimize(self, op: dict) -> dict:
        import onnx_ir as ir
        import onnxscript.optimizer as opt

        mp = self.load_model_proto(op["model"])
        api = op.get("api", "proto")
        opts = dict(op.get("opts", {}))
        if api == "proto":
            out = opt.optimize(mp, **opts)
        elif api == "ir":
            m = self._as_ir(mp)
            out = opt.optimize(m, **opts)
        elif api == "ir_should_fold":
            # a caller-supplied callback that raises on its j-th call
            m = self._as_ir(mp)
            j = op.get("raise_at", 0)
            answer = op.get("answer", "none")
            calls = [0]

            def should_fold(node):
                calls[0] += 1
                if j and calls[0] == j:
                    raise ValueError("callback failed")
                if answer == "alternate":
                    return bool(calls[0] % 2)
                if answer == "never":
                    return False
                return None

            opt.optimize_ir(m, should_fold=should_fold, **opts)
            out = m
        elif api == "fold_pass_cb":
            # a long-lived FoldConstantsPass that owns a caller-supplied should_fold callback vetoing one operator
            from onnxscript.optimizer import _constant_folding as cf

            veto = {"veto_add": "Add", "veto_mul": "Mul"}[op.get("answer", "veto_add")]
            key = ("fold_pass_cb", veto)
            if key not in self.long:
                with self.setup():
                    self.long[key] = cf.FoldConstantsPass(shape_inference=True, input_size_limit=cf.DEFAULT_CONSTANT_FOLD_INPUT_SIZE_LIMIT,
                                                          output_size_limit=cf.DEFAULT_CONSTANT_FOLD_OUTPUT_SIZE_LIMIT,
                                                          should_fold=lambda n, veto=veto: False if n.op_type == veto else None)
            m = self._as_ir(mp)
            r = self.long[key](m)
            return {"model": self._serialize(r.model), "modified": str(bool(r.modified))}
        elif api.startswith("fw:"):
            # the exporter-facing entry points of onnxscript._framework_apis (torch_2_5: behind an environment flag that is
            # read at call time and set here as part of the operation; later versions: unconditional, 2_8 adds onnx_fusions)
            import importlib

            _, ver, flag = api.split(":")
            mod = importlib.import_module("onnxscript._framework_apis." + ver)
            os.environ["TORCH_ONNX_ENABLE_OPTIMIZATION"] = flag
            try:
                out = mod.optimize(self._as_ir(mp))
            finally:
                os.environ.pop("TORCH_ONNX_ENABLE_OPTIMIZATION", None)
        elif api == "positional":
            # options given positionally (num_iterations is the first one)
            out = opt.optimize(mp, *op.get("args", []))
        elif api == "fold_pass":
            from onnxscript.optimizer import _constant_folding as cf

            key = ("fold_pass", json.dumps(opts, sort_keys=True))
            if key not in self.long:
                with self.setup():
                    self.long[key] = cf.FoldConstantsPass(shape_inference=opts.get("onnx_shape_inference", True),
                                                          input_size_limit=opts.get("input_size_limit", cf.DEFAULT_CONSTANT_FOLD_INPUT_SIZE_LIMIT),
                                                          output_size_limit=opts.get("output_size_limit", cf.DEFAULT_CONSTANT_FOLD_OUTPUT_SIZE_LIMIT))
            m = self._as_ir(mp)
            r = self.long[key](m)
            out = r.model
            return {"model": self._serialize(out), "modified": str(bool(r.modified))}
        elif api == "fold":
            m = self._as_ir(mp)
            r = opt.fold_constants(m, **opts)
            return {"model": self._serialize(m), "modified": str(bool(r.modified))}
        elif api == "remove_unused":
            out = mp
            opt.remove_unused_nodes(out)
        elif api == "inline":
            m = self._as_ir(mp)
            opt.inline(m)
            out = m
        else:
            raise ValueError(api)
        return {"model": self._serialize(out)}

    def _rules(self, name: str):
        """Long-lived rule-set objects, built once per process from the module-level rule singletons."""
        key = ("rules", name)
        if key in self.long:
            return self.long[key]
        self.seam.paused = True   # constructing the long-lived rule-set object is set-up, not the operation
        try:
            return self._build_rules(name, key)
        finally:
            self.seam.paused = False

    def _build_rules(self, name: str, key):
        from onnxscript import rewriter
        from onnxscript.rewriter import pattern
        from onnxscript.rewriter.rules import common as rc

        if name == "default_set":
            rs = pattern.RewriteRuleSet(rewriter._DEFAULT_REWRITE_RULES)
        elif name == "default_commute":
            rs = pattern.RewriteRuleSet(rewriter._DEFAULT_REWRITE_RULES, commute=True)
        elif name.startswith(("single:", "group:")):
            names = name.split(":", 1)[1].split(",")
            rules = []
            for n in names:
                r = getattr(rc, n)
                if callable(r) and not isinstance(r, pattern.RewriteRule):
                    r = r()   # e.g. fuse_hardswish_rules() returns a rule set
                if isinstance(r, pattern.RewriteRuleSet):
                    rules.extend(r.rules)
                elif isinstance(r, (list, tuple)):
                    rules.extend(r)
                else:
                    rules.append(r)
            rs = pattern.RewriteRuleSet(rules)
        elif name.startswith("fusion:"):
            import importlib

            mod = importlib.import_module("onnxscript.rewriter.rules.fusion." + name.split(":", 1)[1])
            rules = None
            for attr in dir(mod):
                v = getattr(mod, attr)
                if isinstance(v, pattern.RewriteRuleSet):
                    rules = v
                    break
            if rules is None:
                raise ValueError(f"no rule set in {name}")
            rs = rules
        elif name.startswith("fusionall:"):
            import importlib

            rules = []
            for mn in name.split(":", 1)[1].split(","):
                mod = importlib.import_module("onnxscript.rewriter.rules.fusion." + mn)
                for attr in sorted(dir(mod)):
                    v = getattr(mod, attr)
                    if isinstance(v, pattern.RewriteRuleSet):
                        rules.extend(r for r in v.rules if r not in rules)
            rs = pattern.RewriteRuleSet(rules)
        elif name.startswith("ortall:"):
            import importlib

            rules = []
            for mn in name.split(":", 1)[1].split(","):
                mod = importlib.import_module("onnxscript.rewriter.ort_fusions." + mn)
                for attr in sorted(dir(mod)):
                    v = getattr(mod, attr)
                    if isinstance(v, pattern.RewriteRuleSet):
                        rules.extend(r for r in v.rules if r not in rules)
            rs = pattern.RewriteRuleSet(rules)
        elif name.startswith("ort:"):
            import importlib

            mods = name.split(":", 1)[1].split(",")
            rules = []
            for mn in mods:
                mod = importlib.import_module("onnxscript.rewriter.ort_fusions." + mn)
                for attr in sorted(dir(mod)):
                    v = getattr(mod, attr)
                    if isinstance(v, pattern.RewriteRuleSet):
                        rules.extend(v.rules)
                        break
            rs = pattern.RewriteRuleSet(rules)
        elif name == "llama_sets":
            from onnxscript.rewriter.rules.common import _gemm_to_matmul_add, _matmul_add_to_gemm

            rs = pattern.RewriteRuleSet([*_matmul_add_to_gemm.rules, _gemm_to_matmul_add.rule] if hasattr(_gemm_to_matmul_add, "rule")
                                        else list(_matmul_add_to_gemm.rules))
        else:
            raise ValueError(name)
        self.long[key] = rs
        return rs

    def op_rewrite(self, op: dict) -> dict:
        import onnx_ir as ir
        from onnxscript import rewriter

        mp = self.load_model_proto(op["model"])
        rules = op.get("rules", "default")
        api = op.get("api", "proto")
        if rules.startswith("ortfuse:"):
            # the ORT fusion drivers: every fusion rule set of the package in their fixed order, on module-level singletons
            from onnxscript.rewriter.ort_fusions import _core

            m = self._as_ir(mp)
            if op.get("pre_optimize"):
                import onnxscript.optimizer as opt

                opt.optimize(m)
            which = rules.split(":", 1)[1]
            if which == "fuse_xformers":
                m2, counts = _core.fuse_xformers(m)
            else:
                m2, counts = _core.optimize_for_ort(m, **({"config_name": which.split("=", 1)[1]} if "=" in which else {}))
            return {"model": self._serialize(m2), "counts": json.dumps(counts, sort_keys=True)}
        if rules == "onnxfuse":
            # onnxscript.rewriter.onnx_fusions.fuse: the fusions targeting standard ONNX operators (opset 23)
            from onnxscript.rewriter import onnx_fusions

            m = self._as_ir(mp)
            if op.get("pre_optimize"):
                import onnxscript.optimizer as opt

                opt.optimize(m)
            counts = onnx_fusions.fuse(m)
            return {"model": self._serialize(m), "counts": json.dumps(counts, sort_keys=True)}
        if rules.startswith("ortfn:"):
            # the per-module fuse_* entry points (what users call), in name order
            import importlib

            mod = importlib.import_module("onnxscript.rewriter.ort_fusions." + rules.split(":", 1)[1])
            m = self._as_ir(mp)
            if op.get("pre_optimize"):
                import onnxscript.optimizer as opt

                opt.optimize(m)
            counts = {}
            for attr in sorted(dir(mod)):
                if attr.startswith("fuse_") and callable(getattr(mod, attr)):
                    counts[attr] = getattr(mod, attr)(m)
            return {"model": self._serialize(m), "counts": json.dumps(counts, sort_keys=True)}
        if rules.startswith("user:") and ("rules", rules) not in self.long:
            # user-written rules: their module is executed, and their patterns are built, now — after whatever this process
            # did before — and the rule set then lives as long as the process
            if "usermod" not in self.long:
                import types

                self.seam.paused = True
                src = op["rules_src"]
                fname = f"<dsim-userrules-{_sha(src.encode())}>"
                linecache.cache[fname] = (len(src), None, src.splitlines(True), fname)
                mod = types.ModuleType("dsim_userrules")
                mod.__file__ = fname
                try:
                    exec(compile(src, fname, "exec"), mod.__dict__)  # noqa: S102
                finally:
                    self.seam.paused = False
                self.long["usermod"] = mod
            with self.setup():
                self.long[("rules", rules)] = self.long["usermod"].build(rules.split(":", 1)[1])
        if rules == "default":
            if api == "proto":
                out = rewriter.rewrite(mp)
            elif api == "ir":
                out = rewriter.rewrite(self._as_ir(mp))
            else:  # long-lived RewritePass over the module-level default tuple
                if "rewrite_pass" not in self.long:
                    with self.setup():
                        self.long["rewrite_pass"] = rewriter.RewritePass(rewriter._DEFAULT_REWRITE_RULES)
                m = self._as_ir(mp)
                r = self.long["rewrite_pass"](m)
                return {"model": self._serialize(r.model), "modified": str(bool(r.modified))}
        else:
            rs = self._rules(rules)
            if op.get("pre_optimize"):
                import onnxscript.optimizer as opt

                m = self._as_ir(mp)
                opt.optimize(m)
                n = rs.apply_to_model(m)
                return {"model": self._serialize(m), "count": str(n)}
            if api == "proto":
                out = rewriter.rewrite(mp, rs)
            elif api == "apply":
                m = self._as_ir(mp)
                n = rs.apply_to_model(m)
                return {"model": self._serialize(m), "count": str(n)}
            else:
                out = rewriter.rewrite(self._as_ir(mp), rs)
        return {"model": self._serialize(out)}

    def op_convert(self, op: dict) -> dict:
        import onnx_ir as ir
        from onnxscript import version_converter as vc

        mp = self.load_model_proto(op["model"])
        target = op["target"]
        fallback = op.get("fallback", False)
        api = op.get("api", "proto")
        if api.startswith("fw:"):
            import importlib

            _, ver, flag = api.split(":")
            mod = importlib.import_module("onnxscript._framework_apis." + ver)
            os.environ["TORCH_ONNX_ENABLE_VERSION_CONVERSION"] = flag
            try:
                out = mod.convert_version(self._as_ir(mp), target)
            finally:
                os.environ.pop("TORCH_ONNX_ENABLE_VERSION_CONVERSION", None)
        elif api == "proto":
            vc.convert_version(mp, target, fallback=fallback)
            out = mp
        elif api == "ir":
            m = self._as_ir(mp)
            vc.convert_version(m, target, fallback=fallback)
            out = m
        else:
            key = ("convert_pass", target, fallback)
            if key not in self.long:
                with self.setup():
                    self.long[key] = vc.ConvertVersionPass(target_version=target, fallback=fallback)
            m = self._as_ir(mp)
            r = self.long[key](m)
            return {"model": self._serialize(r.model), "modified": str(bool(r.modified))}
        return {"model": self._serialize(out)}

    def op_torchlib(self, op: dict) -> dict:
        from onnxscript._framework_apis import torch_2_5

        res = {}
        for meta in torch_2_5.get_torchlib_ops():
            f = meta.function
            name = f"{meta.qualified_name}|{getattr(f, 'name', '?')}"
            try:
                res[name] = _sha(f.to_function_proto().SerializeToString(deterministic=True))
            except INJECTED:
                raise
            except Exception as e:  # noqa: BLE001
                res[name] = f"EXC:{type(e).__name__}"
        return res

    # -------------------------------------------------------------- dispatcher
    def run_op(self, i: int, op: dict) -> dict:
        rec = {"i": i, "id": op["id"], "kind": op["kind"]}
        fault = op.get("fault")
        count = op.get("count_calls") or fault is not None
        fn = getattr(self, "op_" + op["kind"])
        if count:
            self.seam.start(None if fault is None else fault["k"], (fault or {}).get("exc", "RuntimeError"))
        self._in_norm = self._out_norm = None
        try:
            res = fn(op)
            rec["status"] = "ok"
            rec["result"] = res
            if self._in_norm is not None and self._out_norm is not None:
                # probe: did the operation change the model at all (rule fired / folded / converted)?
                rec["changed"] = self._out_norm != self._in_norm
        except INJECTED as e:
            rec["status"] = "raised"
            rec["result"] = {"exc": "InjectedFault"}
            rec["exc_text"] = _scrub(str(e))[:200]
        except BaseException as e:  # noqa: BLE001
            if isinstance(e, (KeyboardInterrupt, SystemExit)):
                raise
            rec["status"] = "raised"
            rec["result"] = {"exc": type(e).__name__}
            rec["exc_text"] = _scrub(str(e))[:200]
            chain, seen = e, 0
            while chain is not None and seen < 12:
                if isinstance(chain, INJECTED):
                    rec["exc_from_fault"] = True
                chain = chain.__cause__ or chain.__context__
                seen += 1
        finally:
            if count:
                self.seam.stop()
                if self.seam.fired is not None and op["kind"] == "translate":
                    # the functions created while a fault fired (even a swallowed one) are this operation's own, possibly
                    # damaged, products: a later revisit must not mistake them for the pristine long-lived functions
                    self.modules.pop(_sha(op["src"].encode()), None)
                rec["calls"] = self.seam.count
                if op.get("count_calls"):
                    rec["marks"] = list(self.seam.marks)
                if self.seam.fired is not None:
                    rec["faulted"] = True
                    rec["fault_site"] = self.seam.fired
                    rec["fault_swallowed"] = rec.get("status") == "ok"
        return rec

    def state_fingerprint(self) -> str:
        """Hash of the process-global state the audit found (the 'states reached' measure)."""
        parts = []
        try:
            from onnxscript import rewriter
            from onnxscript._internal import values
            from onnxscript.rewriter import _pattern_ir

            for r in rewriter._DEFAULT_REWRITE_RULES:
                for obj in (r, getattr(r, "_rule_class_instance", None), getattr(r, "__self__", None)):
                    if obj is None:
                        continue
                    d = getattr(obj, "__dict__", {})
                    for k in sorted(d):
                        if k.startswith("_") and isinstance(d[k], (int, float, str, bool, list, tuple, type(None))):
                            parts.append(f"{type(obj).__name__}.{k}={d[k]!r}")
            parts.append(f"opsets={len(values.Opset.cache)}")
            parts.append(f"pattern_builder={type(_pattern_ir._pattern_builder).__name__}")
            for k in sorted(map(str, self.long)):
                parts.append("long:" + k)
        except Exception as e:  # noqa: BLE001
            parts.append(f"ERR:{type(e).__name__}")
        return _sha("|".join(parts).encode())


def _gc_setup(knob: str):
    if knob == "aggressive":
        gc.set_threshold(1, 1, 1)
    elif knob == "disabled":
        gc.disable()
    # "default" and "collect_between" keep the default thresholds


def main() -> int:
    spec = json.load(sys.stdin)
    out_fd = os.dup(1)
    os.dup2(2, 1)  # anything the code under test prints goes to stderr
    env = spec["env"]
    repo = env.get("repo", "/repo")
    if repo not in sys.path:
        sys.path.insert(0, repo)
    import logging

    logging.disable(logging.CRITICAL)
    import warnings

    warnings.simplefilter("ignore")
    _gc_setup(env.get("gc", "default"))
    # address-space seam for objects created at *import* time (module-level rule / pattern / opset singletons):
    # with ASLR off the import-time heap is otherwise identical in every process; n live objects per small-object
    # size class shift every later allocation inside its pymalloc pool
    n_pre = int(env.get("pre_skew", 0))
    _pre_skew = [[bytes(k) for _ in range(n_pre)] for k in range(0, 480, 16)] if n_pre else None
    # import the whole stack up front so that no operation pays (or reorders) first-import allocations
    import numpy  # noqa: F401
    import onnx  # noqa: F401
    import onnx.reference  # noqa: F401
    import onnx_ir  # noqa: F401
    import onnxscript  # noqa: F401
    import onnxscript.optimizer  # noqa: F401
    import onnxscript.rewriter  # noqa: F401
    import onnxscript.rewriter.rules.common  # noqa: F401
    import onnxscript.version_converter  # noqa: F401
    import onnxscript.rewriter.rules.fusion._gqa  # noqa: F401
    import onnxscript.rewriter.rules.fusion._layer_norm  # noqa: F401
    import onnxscript.rewriter.rules.fusion._rms_normalization  # noqa: F401
    import onnxscript.rewriter.rules.fusion._rotary_embedding  # noqa: F401
    import onnxscript.rewriter.ort_fusions.bias_gelu  # noqa: F401
    import onnxscript.rewriter.ort_fusions.erfgelu  # noqa: F401
    import onnxscript.rewriter.ort_fusions.gelu  # noqa: F401
    import onnxscript.rewriter.ort_fusions.rms_normalization  # noqa: F401
    import onnxscript.rewriter.ort_fusions.softmax  # noqa: F401
    import onnxscript.rewriter.ort_fusions._core  # noqa: F401
    import onnxscript.rewriter.onnx_fusions  # noqa: F401
    from onnxscript._framework_apis import torch_2_5, torch_2_6, torch_2_8, torch_2_9  # noqa: F401
    try:  # the rule tests' model-building modules import these; import once so forked children do not
        import parameterized  # noqa: F401
        import onnxscript.rewriter.testing  # noqa: F401
    except Exception:  # noqa: BLE001
        pass

    rt = Runtime(spec)
    log = []
    mode = spec.get("mode", "sequential")
    skews = env.get("skew", [])
    for i, op in enumerate(spec["ops"]):
        rt.skew(skews[i] if i < len(skews) else 0)
        if env.get("gc") == "collect_between":
            gc.collect()
        if mode == "fork_each":
            r, w = os.pipe()
            pid = os.fork()
            if pid == 0:
                try:
                    os.close(r)
                    rec = rt.run_op(i, op)
                    mv = memoryview(json.dumps(rec).encode())
                    while mv:
                        mv = mv[os.write(w, mv):]
                finally:
                    os._exit(0)
            os.close(w)
            chunks = []
            while True:
                b = os.read(r, 65536)
                if not b:
                    break
                chunks.append(b)
            os.close(r)
            os.waitpid(pid, 0)
            try:
                rec = json.loads(b"".join(chunks))
            except ValueError:
                rec = {"i": i, "id": op["id"], "kind": op["kind"], "status": "crashed", "result": {"exc": "CHILD-CRASH"}}
        else:
            rec = rt.run_op(i, op)
            if env.get("fingerprint", True):
                rec["state"] = rt.state_fingerprint()
        log.append(rec)
    payload = json.dumps({"log": log, "hashseed": os.environ.get("PYTHONHASHSEED"),
                          "addr_probe": id([None] * 3)}).encode()  # address-space probe: must replay bit-for-bit
    mv = memoryview(payload)
    while mv:
        n = os.write(out_fd, mv)
        mv = mv[n:]
    return 0


if __name__ == "__main__":
    try:
        sys.exit(main())
    except SystemExit:
        raise
    except BaseException:  # noqa: BLE001
        traceback.print_exc()
        sys.exit(3)
