"""Launches one simulated process (dsim.c14.node) with a simulator-chosen environment."""
from __future__ import annotations

import json
import os
import platform
import shutil
import subprocess
import sys

from dsim import common

PY = sys.executable
_SETARCH = shutil.which("setarch")


def base_env(hashseed: int, pyc_prefix: str, extra: dict | None = None) -> dict:
    env = {
        "PATH": "/usr/bin:/bin",
        "HOME": "/nonexistent",
        "LANG": "C.UTF-8",
        "PYTHONHASHSEED": str(hashseed),
        "PYTHONPATH": common.VERIF,
        "PYTHONPYCACHEPREFIX": pyc_prefix,
        "OPENBLAS_NUM_THREADS": "1", "OMP_NUM_THREADS": "1", "MKL_NUM_THREADS": "1",
        "PYTHONFAULTHANDLER": "1",
    }
    if extra:
        env.update({k: str(v) for k, v in extra.items()})
    return env


def command(aslr_off: bool = True) -> list[str]:
    cmd = [PY, "-X", "faulthandler", "-m", "dsim.c14.node"]
    if aslr_off and _SETARCH:
        cmd = [_SETARCH, platform.machine(), "-R", *cmd]
    return cmd


def launch(spec: dict, pyc_prefix: str, timeout: int = 300, freeze_cache: bool = True) -> dict:
    """Run one spec. Returns {'log': [...]} or {'error': ...} (harness-level failure)."""
    env = base_env(spec["env"]["hashseed"], pyc_prefix, spec["env"].get("envvars"))
    if freeze_cache:
        # after the warm-up the byte-code cache is read-only: a module missing from it is compiled by *every*
        # process that needs it, so compile-vs-load (which shifts heap addresses) never depends on a race
        env["PYTHONDONTWRITEBYTECODE"] = "1"
    # a private scratch directory for the simulated process (script files on disk, external-data files); the path has a
    # constant length so that it does not disturb the replay of heap addresses
    import shutil
    import tempfile

    scratch = tempfile.mkdtemp(prefix="n-", dir=os.path.dirname(pyc_prefix))
    env["DSIM_SCRATCH"] = scratch
    try:
        p = subprocess.run(command(spec["env"].get("aslr_off", True)), input=json.dumps(spec).encode(), env=env, cwd="/",
                           capture_output=True, timeout=timeout)
    except subprocess.TimeoutExpired:
        return {"error": f"timeout after {timeout}s"}
    finally:
        shutil.rmtree(scratch, ignore_errors=True)
    if p.returncode != 0:
        return {"error": f"node exit {p.returncode}: {p.stderr.decode(errors='replace')[-1500:]}"}
    try:
        return json.loads(p.stdout)
    except ValueError:
        return {"error": f"unparseable node output: {p.stdout[-300:]!r} stderr={p.stderr.decode(errors='replace')[-500:]}"}


def warm(pyc_prefix: str, repo: str) -> float:
    """One serial import of the whole stack so every later process *loads* byte code (same allocation order)."""
    import time

    t = time.monotonic()
    spec = {"env": {"hashseed": 0, "repo": repo, "gc": "default", "skew": []}, "mode": "sequential", "ops": []}
    r = launch(spec, pyc_prefix, timeout=600, freeze_cache=False)
    if "error" in r:
        raise common.HarnessError("warm-up failed: " + r["error"])
    return time.monotonic() - t
