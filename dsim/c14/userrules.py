"""User-written rewrite rules for C14: what a user of onnxscript.rewriter would write (function-extracting rules, a commuted
rule set, a class-based rule that stashes a value in check(), a two-output pattern, an OR pattern, a check and a rewrite that
raise on particular models, a pattern function that raises while the pattern is being built). The source text travels inside
the run spec and is executed in the simulated process, so the rules and their patterns are *built at run time*, after
whatever the process did before, and then live as long as the process."""

SRC = r'''"""Rules a user of onnxscript.rewriter would write, built at run time (after whatever the process did before)."""
import onnx_ir as ir
from onnxscript.rewriter import pattern
from onnxscript.rewriter import _ir_utils


# -- matched nodes extracted into a model-local function
def _addmul_p(op, x, y, z):
    return op.Mul(op.Add(x, y), z)


def _addmul_r(op, x, y, z):
    return op.AddMul(x, y, z, _domain="user.fused")


def _addtr_p(op, x, y):
    return op.Transpose(op.Add(x, y), perm=[1, 0])


def _addtr_r(op, x, y):
    return op.AddTranspose(x, y, _domain="user.fused")


# -- a rule meant to be commuted
def _sub_p(op, x, y):
    return op.Add(x, op.Neg(y))


def _sub_r(op, x, y):
    return op.Sub(x, y)


# -- class-based rule that computes something in check() and reads it back in rewrite()
class ScaleScale(pattern.RewriteRuleClassBase):
    def pattern(self, op, x, c, d):
        return op.Mul(op.Mul(x, c), d)

    def check(self, context, x, c, d):
        cv = _ir_utils.get_singleton_value(c)
        dv = _ir_utils.get_singleton_value(d)
        if cv is None or dv is None:
            return False
        self._product = float(cv) * float(dv)
        return True

    def rewrite(self, op, x, c, d):
        return op.Mul(x, op.Constant(value_float=self._product))


# -- two outputs
def _sincos_p(op, x):
    return op.Sin(x), op.Cos(x)


def _sincos_r(op, x):
    return op.SinCos(x, _domain="user.fused", _outputs=2)


# -- alternatives
def _absor_p(op, x):
    inner = pattern.OrValue([op.Relu(x), op.Abs(x)], tag_var="which")
    return op.Abs(inner)


def _absor_r(op, x, which):
    return op.Relu(x) if which == 0 else op.Abs(x)


# -- a check that raises on particular models (a user bug), after other rules of the same set may have fired
def _pow_p(op, x, e):
    return op.Pow(x, e)


def _pow_check(context, x, e):
    ev = _ir_utils.get_singleton_value(e)
    if ev is None:
        return False
    if float(ev) == 13.0:
        raise ValueError("user check cannot handle this exponent")
    return float(ev) == 2.0


def _pow_r(op, x, e):
    return op.Mul(x, x)


# -- a rewrite that raises on particular models
def _sqrt_p(op, x):
    return op.Sqrt(op.Sqrt(x))


def _sqrt_r(op, x):
    if x.shape is not None and x.shape.rank() == 3:
        raise KeyError("user rewrite cannot handle rank 3")
    return op.Pow(x, op.Constant(value_float=0.25))


def build(which):
    R = pattern.RewriteRule
    if which == "functions":
        return pattern.RewriteRuleSet([R(_addmul_p, _addmul_r, as_function=True, name="AddMulFn"),
                                       R(_addtr_p, _addtr_r, as_function=True, name="AddTransposeFn"),
                                       R(_pow_p, _pow_r, _pow_check, name="PowSquare"), R(_sqrt_p, _sqrt_r, name="SqrtSqrt")])
    if which == "commute":
        return pattern.RewriteRuleSet([R(_sub_p, _sub_r, name="AddNeg"), ScaleScale.rule(), R(_pow_p, _pow_r, _pow_check, name="PowSquare")],
                                      commute=True)
    if which == "all":
        return pattern.RewriteRuleSet([R(_addmul_p, _addmul_r, as_function=True, name="AddMulFn"), R(_sub_p, _sub_r, name="AddNeg"),
                                       ScaleScale.rule(), R(_sincos_p, _sincos_r, name="SinCos"), R(_absor_p, _absor_r, name="AbsOr"),
                                       R(_addtr_p, _addtr_r, as_function=True, name="AddTransposeFn"),
                                       R(_sqrt_p, _sqrt_r, name="SqrtSqrt"), R(_pow_p, _pow_r, _pow_check, name="PowSquare")])
    if which == "bad_pattern":
        def _bad_p(op, x, y):
            t = op.Add(x, y)
            raise TypeError("user pattern function is broken")

        return pattern.RewriteRuleSet([R(_bad_p, _sub_r, name="Bad")])
    raise ValueError(which)
'''
