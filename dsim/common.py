"""Shared plumbing: paths, evidence, known findings, worker pool, exit codes."""
from __future__ import annotations

import concurrent.futures as cf
import faulthandler
import hashlib
import json
import multiprocessing as mp
import os
import shutil
import sys
import tempfile
import time

VERIF = os.path.dirname(os.path.dirname(os.path.abspath(__file__)))
REPO = os.environ.get("VERIF_REPO", "/repo")
EVIDENCE_DIR = os.environ.get("VERIF_EVIDENCE_DIR") or os.path.join(VERIF, "evidence")
REPLAY_DIR_ENV = os.environ.get("VERIF_REPLAY_DIR")
REPLAY_DIR = os.environ.get("VERIF_REPLAY_DIR") or os.path.join(VERIF, "replays")
FINDINGS_FILE = os.path.join(VERIF, "known_findings.txt")
KIT_VERSION = 1

EXIT_OK, EXIT_VIOLATION, EXIT_HARNESS = 0, 1, 2


class HarnessError(Exception):
    """The simulator itself failed (not a property violation)."""


def sha(b: bytes) -> str:
    return hashlib.sha256(b).hexdigest()[:24]


def jdump(obj) -> str:
    return json.dumps(obj, sort_keys=True, separators=(",", ":"))


def seed_from_env(default: int = 20260924) -> int:
    v = os.environ.get("VERIF_SEED")
    if v is None or v == "":
        return default
    try:
        return int(v, 0)
    except ValueError:
        return int.from_bytes(hashlib.sha256(v.encode()).digest()[:6], "little")


def scratch_root() -> str:
    """A per-invocation scratch directory outside /repo and /verif; caller removes it."""
    base = "/dev/shm" if os.path.isdir("/dev/shm") and os.access("/dev/shm", os.W_OK) else tempfile.gettempdir()
    return tempfile.mkdtemp(prefix="dsim-", dir=base)


def rmtree(p: str) -> None:
    shutil.rmtree(p, ignore_errors=True)


# ---------------------------------------------------------------- findings

class Finding:
    def __init__(self, prop: str, match: dict, text: str):
        self.prop, self.match, self.text = prop, match, text
        self.hits = 0

    def matches(self, prop: str, sig: dict) -> bool:
        if prop != self.prop:
            return False
        return all(sig.get(k) == v for k, v in self.match.items())


def load_findings(path: str = FINDINGS_FILE) -> list[Finding]:
    """`finding: property=<id> match=<json> :: text` lines suppress (and are announced);
    `fixed:` lines are documentation only and suppress nothing."""
    out: list[Finding] = []
    if not os.path.exists(path):
        return out
    for line in open(path, encoding="utf-8"):
        line = line.strip()
        if not line.startswith("finding:"):
            continue
        body = line[len("finding:"):].strip()
        head, _, text = body.partition("::")
        parts = head.strip().split(None, 1)
        prop = parts[0].split("=", 1)[1]
        mtxt = parts[1].strip()
        assert mtxt.startswith("match=")
        out.append(Finding(prop, json.loads(mtxt[len("match="):]), text.strip()))
    return out


# ---------------------------------------------------------------- evidence

def write_evidence(prop: str, tier: str, seed: int, level: str, coverage: dict,
                   assumptions: list[str], wall_s: float, violations: int) -> str:
    os.makedirs(EVIDENCE_DIR, exist_ok=True)
    doc = {
        "property_id": prop, "tier": tier, "seed": seed, "level": level,
        "coverage": coverage, "assumptions": assumptions,
        "wall_s": round(wall_s, 3), "violations": violations,
    }
    path = os.path.join(EVIDENCE_DIR, f"{prop}.json")
    tmp = path + ".tmp"
    with open(tmp, "w", encoding="utf-8") as f:
        json.dump(doc, f, indent=1, sort_keys=True)
        f.write("\n")
    os.replace(tmp, path)
    return path


def write_replay(prop: str, name: str, doc: dict) -> str:
    os.makedirs(REPLAY_DIR, exist_ok=True)
    path = os.path.join(REPLAY_DIR, f"{prop}-{name}.json")
    with open(path, "w", encoding="utf-8") as f:
        json.dump(doc, f, indent=1, sort_keys=True)
        f.write("\n")
    return path


# ---------------------------------------------------------------- worker pool

def _worker_init(hang_s: int):
    faulthandler.enable()
    # a stuck worker dumps its stack and the pool's per-task timeout turns it into a harness error
    faulthandler.dump_traceback_later(hang_s, exit=True)


def pool(workers: int, hang_s: int = 3600) -> cf.ProcessPoolExecutor:
    ctx = mp.get_context("fork")
    return cf.ProcessPoolExecutor(max_workers=workers, mp_context=ctx,
                                  initializer=_worker_init, initargs=(hang_s,))


def default_workers() -> int:
    v = os.environ.get("VERIF_WORKERS")
    if v:
        return max(1, int(v))
    return max(1, min(16, os.cpu_count() or 1))


class Stopwatch:
    """Wall clock is read only for budgets and wall_s; it never steers a run."""

    def __init__(self):
        self.t0 = time.monotonic()

    def elapsed(self) -> float:
        return time.monotonic() - self.t0


def log(*a):
    print(*a, file=sys.stdout, flush=True)
