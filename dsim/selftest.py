"""Self-tests of the simulator itself.

determinism : the same VERIF_SEED gives bit-identical event-log digests when the driver itself runs under
              different PYTHONHASHSEEDs and worker counts, in fresh interpreters.
mutants     : each patch in /verif/mutants is applied to a scratch copy of /repo's working tree (outside /repo and
              /verif), the quick check runs against the copy (VERIF_REPO), and must report VIOLATION (or stay clean for
              the must-not-alarm controls). The copy is deleted afterwards.
"""
from __future__ import annotations

import glob
import json
import os
import shutil
import subprocess
import sys
import time

from dsim import common
from dsim.common import log


def _copy_repo(dst: str):
    src = common.REPO if os.path.isdir(common.REPO) else "/repo"
    shutil.copytree(src, dst, ignore=shutil.ignore_patterns(".git", "__pycache__", "*.pyc", ".pytest_cache", "*.egg-info"))


def run_mutants(prop: str | None, seed: int) -> int:
    patches = sorted(glob.glob(os.path.join(common.VERIF, "mutants", "*.patch")))
    if prop:
        patches = [p for p in patches if os.path.basename(p).lower().startswith(prop.lower())]
    only = os.environ.get("VERIF_MUTANTS")
    if only:
        patches = [p for p in patches if any(o in os.path.basename(p) for o in only.split(","))]
    root = common.scratch_root()
    results = []
    try:
        for p in patches:
            name = os.path.basename(p)[:-6]
            desc = open(p[:-6] + ".txt").read().strip() if os.path.exists(p[:-6] + ".txt") else ""
            expect_violation = "expect=CLEAN" not in desc
            pid = "C14" if name.lower().startswith("c14") else "C20"
            copy = os.path.join(root, "repo-" + name)
            _copy_repo(copy)
            ap = subprocess.run(["patch", "-p1", "-s", "-i", p], cwd=copy, capture_output=True, text=True)
            if ap.returncode != 0:
                results.append((name, "PATCH-FAILED", ap.stdout[-200:] + ap.stderr[-200:]))
                shutil.rmtree(copy, ignore_errors=True)
                continue
            t = time.monotonic()
            env = dict(os.environ, VERIF_REPO=copy, VERIF_SEED=str(seed), PYTHONPATH=copy,
                       VERIF_EVIDENCE_DIR=os.path.join(root, "evidence"), VERIF_REPLAY_DIR=os.path.join(root, "replays"))
            r = subprocess.run([sys.executable, "-m", "dsim", "check", pid, "--tier", "quick"], cwd=common.VERIF, env=env,
                               capture_output=True, text=True, timeout=1800)
            got_v = "VIOLATION property=" in r.stdout
            lines = [ln for ln in r.stdout.splitlines() if ln.startswith(("VIOLATION", "  violation", "HARNESS-ERROR"))]
            ok = (got_v == expect_violation) and r.returncode in (0, 1)
            results.append((name, "ok" if ok else "MISSED" if expect_violation else "FALSE-ALARM",
                            f"exit={r.returncode} {time.monotonic() - t:.0f}s " + " | ".join(lines[:3])[:400]))
            shutil.rmtree(copy, ignore_errors=True)
            log(f"mutant {name}: {results[-1][1]} {results[-1][2]}")
    finally:
        common.rmtree(root)
    bad = [r for r in results if r[1] != "ok"]
    log(f"mutants: {len(results) - len(bad)}/{len(results)} as expected")
    out = os.path.join(common.VERIF, "mutants", "RESULTS.json")
    json.dump([{"mutant": n, "verdict": v, "detail": d} for n, v, d in results], open(out, "w"), indent=1)
    return 0 if not bad else 1


def run_determinism(prop: str | None, seed: int) -> int:
    """Run each quick check several times in fresh interpreters under different driver hash seeds / worker counts and
    compare the run digests that the checks put into their evidence."""
    bad = 0
    record = {}
    for pid in ([prop] if prop else ["C20", "C14"]):
        digs = []
        for hs, workers in ((0, 16), (12345, 16), (777, 3)):
            scratch = common.scratch_root()
            env = dict(os.environ, PYTHONHASHSEED=str(hs), VERIF_WORKERS=str(workers), VERIF_SEED=str(seed),
                       VERIF_EVIDENCE_DIR=os.path.join(scratch, "evidence"), VERIF_REPLAY_DIR=os.path.join(scratch, "replays"))
            r = subprocess.run([sys.executable, "-m", "dsim", "check", pid, "--tier", "quick"], cwd=common.VERIF, env=env,
                               capture_output=True, text=True, timeout=3600)
            common.rmtree(scratch)
            d = [ln for ln in r.stdout.splitlines() if ln.startswith("RUN-DIGEST")]
            digs.append((hs, workers, r.returncode, d[-1] if d else "none"))
            log(f"determinism {pid}: driver PYTHONHASHSEED={hs} workers={workers} exit={r.returncode} {d[-1] if d else 'no digest'}")
        record[pid] = [{"driver_PYTHONHASHSEED": d[0], "workers": d[1], "exit": d[2], "digest": d[3]} for d in digs]
        if len({d[3] for d in digs}) != 1 or any(d[3] == "none" for d in digs):
            bad += 1
            log(f"determinism {pid}: DIGESTS DIFFER")
    out = os.path.join(common.VERIF, "selftest_determinism.json")
    old = json.load(open(out)) if os.path.exists(out) else {}
    old.update(record)
    json.dump(old, open(out, "w"), indent=1, sort_keys=True)
    return 0 if not bad else 2


def run(what: str, prop: str | None, seed: int) -> int:
    if what == "mutants":
        return run_mutants(prop, seed)
    return run_determinism(prop, seed)
