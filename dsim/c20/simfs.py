"""Simulated disk for C20.

Real files in a per-run sandbox directory sit behind proxies that report every
file-system call made inside the *fault window* as a numbered event and can fail
it according to a fault plan.  Also owned here: the progress stream (sys.stderr),
tqdm's clock, and the disk-capacity seam (RLIMIT_FSIZE + ignored SIGXFSZ), which is
the only way to fault the C-stdio writes numpy's ``tofile`` makes through a dup'ed fd.

Nothing in here draws from a PRNG or reads a real clock.
"""
from __future__ import annotations

import builtins
import errno as _errno
import io
import mmap as _mmap
import os
import resource
import signal
import sys
import types

_real_open = builtins.open

ERRNO = {n: getattr(_errno, n) for n in
         ("ENOENT", "EACCES", "EMFILE", "ENOSPC", "EIO", "EDQUOT", "EBADF", "ESPIPE", "ENOMEM", "EFBIG", "EPIPE", "EINTR")}


class SimFault(OSError):
    """An injected fault (still an OSError, which is what the code under test sees)."""


def _oserr(name: str, what: str) -> SimFault:
    return SimFault(ERRNO[name], f"[sim] {os.strerror(ERRNO[name])} ({what})")


class FileProxy:
    """Thin proxy over a real file object; every call is an fs event."""

    def __init__(self, fs: "SimFS", real, rel: str, mode: str, hide_fileno: bool):
        self._fs, self._real, self._rel, self._mode = fs, real, rel, mode
        self._closed = False
        self._writable = any(c in mode for c in "wax+")
        self._durable = 0  # bytes known to have reached the simulated disk (last good flush)
        self._hide_fileno = hide_fileno

    # attribute visibility: hasattr(file, "fileno") must be False in the no-fileno back end
    def __getattr__(self, name):
        if name == "fileno" and not self.__dict__.get("_hide_fileno", False):
            return self._fileno
        raise AttributeError(name)

    @property
    def name(self):
        return self._real.name

    @property
    def mode(self):
        return self._real.mode

    @property
    def closed(self):
        return self._closed

    def readable(self):
        return self._real.readable()

    def writable(self):
        return self._real.writable()

    def seekable(self):
        return self._real.seekable()

    def __enter__(self):
        return self

    def __exit__(self, *exc):
        self.close()
        return False

    def __iter__(self):
        return iter(self._real)

    def _lose_tail(self):
        """Deferred-write error: what was written since the last good flush never reached the disk."""
        try:
            self._real.flush()
            os.ftruncate(self._real.fileno(), self._durable)
        except (OSError, ValueError):
            pass

    def _mark_durable(self):
        try:
            self._durable = os.fstat(self._real.fileno()).st_size
        except (OSError, ValueError):
            pass

    def write(self, data):
        n = len(data)
        f = self._fs.event("write", self._rel, n=n)
        if f is not None:
            kind = f["kind"]
            if kind == "eio":
                raise _oserr(f.get("errno", "EIO"), "write")
            if kind == "torn":
                j = min(max(int(f["j"]), 0), max(n - 1, 0))
                self._real.write(bytes(data[:j]))
                self._fs.note("torn", j=j, n=n)
                raise _oserr(f.get("errno", "ENOSPC"), f"write landed {j} of {n} bytes")
            raise AssertionError(f"fault {f} not applicable to write")
        return self._real.write(data)

    def read(self, size=-1):
        f = self._fs.event("read", self._rel, n=size)
        if f is not None:
            if f["kind"] == "eio":
                raise _oserr(f.get("errno", "EIO"), "read")
            if f["kind"] == "short":
                if size is None or size < 0 or size <= 1:
                    return self._real.read(size)
                want = max(1, min(int(f["j"]), size - 1))
                self._fs.note("short_read", j=want, n=size)
                return self._real.read(want)
            raise AssertionError(f"fault {f} not applicable to read")
        return self._real.read(size)

    def readinto(self, b):
        data = self.read(len(b))
        b[: len(data)] = data
        return len(data)

    def tell(self):
        f = self._fs.event("tell", self._rel)
        if f is not None:
            raise _oserr(f.get("errno", "ESPIPE"), "tell")
        return self._real.tell()

    def seek(self, off, whence=0):
        f = self._fs.event("seek", self._rel, off=off, whence=whence)
        if f is not None:
            raise _oserr(f.get("errno", "ESPIPE"), "seek")
        return self._real.seek(off, whence)

    def flush(self):
        f = self._fs.event("flush", self._rel)
        if f is not None:
            self._lose_tail()
            raise _oserr(f.get("errno", "EIO"), "flush")
        r = self._real.flush()
        self._mark_durable()
        return r

    def _fileno(self):
        f = self._fs.event("fileno", self._rel)
        if f is not None:
            raise _oserr(f.get("errno", "EBADF"), "fileno")
        return self._real.fileno()

    def truncate(self, size=None):
        self._fs.event("truncate", self._rel)
        return self._real.truncate(size)

    def close(self):
        if self._closed:
            return
        f = self._fs.event("close", self._rel)
        self._closed = True
        self._fs.open_files.discard(self)
        if f is not None:
            if self._writable:
                self._lose_tail()
            try:
                self._real.close()
            except OSError:
                pass
            raise _oserr(f.get("errno", "EIO"), "close")
        self._real.close()


class StreamProxy(io.TextIOBase):
    """Simulated progress stream (sys.stderr while the save runs)."""

    def __init__(self, fs: "SimFS"):
        super().__init__()
        self._fs = fs
        self.buf: list[str] = []

    encoding = "utf-8"

    def writable(self):
        return True

    def isatty(self):
        return False

    def write(self, s):
        f = self._fs.event("err.write", "<stderr>", n=len(s))
        if f is not None:
            raise _oserr(f.get("errno", "EPIPE"), "stderr.write")
        self.buf.append(s)
        return len(s)

    def flush(self):
        f = self._fs.event("err.flush", "<stderr>")
        if f is not None:
            raise _oserr(f.get("errno", "EPIPE"), "stderr.flush")


class SimClock:
    """tqdm's clock. Advances by a planned step per read (plan fixed by the spec, not a PRNG here)."""

    def __init__(self, steps: list[float]):
        self.now = 1_700_000_000.0
        self.steps = steps or [0.0]
        self.reads = 0

    def __call__(self) -> float:
        self.now += self.steps[self.reads % len(self.steps)]
        self.reads += 1
        return self.now


class SimFS:
    """Fault plan: {"at": {event_index: fault}, "fsize": bytes|None}.

    A fault is {"kind": ..., "op": expected op, ...}; it fires only if the op of the
    event reached at that index matches (a mismatch is recorded as `missed`, which the
    driver treats as a harness inconsistency for single faults)."""

    def __init__(self, root: str, plan: dict | None = None, hide_fileno: bool = False,
                 clock_steps: list[float] | None = None):
        self.root = os.path.realpath(root)
        self.plan_at = {int(k): v for k, v in ((plan or {}).get("at") or {}).items()}
        self.fsize = (plan or {}).get("fsize")
        self.hide_fileno = hide_fileno
        self.events: list[dict] = []
        self.fired: list[dict] = []
        self.missed: list[dict] = []
        self.notes: list[dict] = []
        self.open_files: set = set()
        self.active = False
        self.stream = StreamProxy(self)
        self.clock = SimClock(clock_steps or [0.0])
        self._saved = {}

    # -------------------------------------------------------------- event core
    def rel(self, path) -> str | None:
        try:
            p = os.path.realpath(os.fspath(path))
        except TypeError:
            return None
        if p == self.root or p.startswith(self.root + os.sep):
            return os.path.relpath(p, self.root)
        return None

    def event(self, op: str, rel: str, **kw):
        if not self.active:
            return None
        i = len(self.events)
        ev = {"i": i, "op": op, "f": rel}
        ev.update(kw)
        self.events.append(ev)
        f = self.plan_at.get(i)
        if f is None:
            return None
        if f.get("op") not in (None, op):
            self.missed.append({"i": i, "want": f.get("op"), "got": op})
            return None
        ev["fault"] = f["kind"]
        self.fired.append({"i": i, "op": op, "f": rel, "kind": f["kind"], "errno": f.get("errno")})
        return f

    def note(self, what: str, **kw):
        self.notes.append({"i": len(self.events) - 1, "what": what, **kw})

    # -------------------------------------------------------------- interposers
    def _open(self, file, mode="r", *a, **kw):
        rel = self.rel(file) if self.active and isinstance(file, (str, bytes, os.PathLike)) else None
        if rel is None:
            return _real_open(file, mode, *a, **kw)
        f = self.event("open", rel, mode=mode)
        if f is not None:
            raise _oserr(f.get("errno", "EACCES"), f"open {rel} {mode}")
        real = _real_open(file, mode, *a, **kw)
        if "b" not in mode:
            return real  # text files are not part of the save's protocol; pass through
        p = FileProxy(self, real, rel, mode, self.hide_fileno and any(c in mode for c in "wax+"))
        self.open_files.add(p)
        return p

    # os-level calls an implementation may add (temp file + rename, remove a stale file, create directories): each is an
    # event that can fail; the shipped code makes none of them, so they cost nothing on the unchanged tree
    OS_CALLS = ("replace", "rename", "remove", "unlink", "makedirs", "mkdir", "rmdir", "truncate", "link", "symlink")

    def _wrap_os(self, name, real):
        def wrapper(*a, **kw):
            rel = None
            for x in a[:2]:
                if isinstance(x, (str, bytes, os.PathLike)):
                    rel = self.rel(x)
                    if rel is not None:
                        break
            if rel is None or not self.active:
                return real(*a, **kw)
            f = self.event("os." + name, rel)
            if f is not None:
                raise _oserr(f.get("errno", "EACCES"), f"os.{name} {rel}")
            return real(*a, **kw)
        return wrapper

    def _mmap(self, fileno, length, *a, **kw):
        f = self.event("mmap", "<fd>", n=length)
        if f is not None:
            raise _oserr(f.get("errno", "ENOMEM"), "mmap")
        return _mmap.mmap(fileno, length, *a, **kw)

    # -------------------------------------------------------------- window
    def __enter__(self):
        import onnx_ir._core as core

        self._saved = {
            "open": builtins.open, "stderr": sys.stderr, "core_mmap": core.mmap,
        }
        builtins.open = self._open
        sys.stderr = self.stream
        self._saved["os"] = {n: getattr(os, n) for n in self.OS_CALLS}
        for n, real in self._saved["os"].items():
            setattr(os, n, self._wrap_os(n, real))
        core.mmap = types.SimpleNamespace(mmap=self._mmap, ACCESS_READ=_mmap.ACCESS_READ)
        try:
            import tqdm.std as tstd

            self._saved["tqdm_time"] = tstd.time
            self._saved["tqdm_mon"] = tstd.tqdm.monitor_interval
            tstd.time = self.clock
            tstd.tqdm.monitor_interval = 0  # no background monitor thread: nothing unscheduled
        except ImportError:
            pass
        if self.fsize is not None:
            self._saved["sig"] = signal.signal(signal.SIGXFSZ, signal.SIG_IGN)
            self._saved["rlim"] = resource.getrlimit(resource.RLIMIT_FSIZE)
            resource.setrlimit(resource.RLIMIT_FSIZE, (int(self.fsize), self._saved["rlim"][1]))
        self.active = True
        return self

    def __exit__(self, *exc):
        self.active = False
        if "rlim" in self._saved:
            resource.setrlimit(resource.RLIMIT_FSIZE, self._saved["rlim"])
            signal.signal(signal.SIGXFSZ, self._saved["sig"])
        import onnx_ir._core as core

        builtins.open = self._saved["open"]
        sys.stderr = self._saved["stderr"]
        for n, real in self._saved.get("os", {}).items():
            setattr(os, n, real)
        core.mmap = self._saved["core_mmap"]
        if "tqdm_time" in self._saved:
            import tqdm.std as tstd

            tstd.time = self._saved["tqdm_time"]
            tstd.tqdm.monitor_interval = self._saved["tqdm_mon"]
        # a save that failed part-way may leak proxies; close the real files so the
        # sandbox can be inspected / removed (no events: window is closed)
        for p in list(self.open_files):
            try:
                p._real.close()
            except OSError:
                pass
        self.open_files.clear()
        return False

    def shape(self) -> str:
        """Trace shape: the op sequence with file roles, used for distinctness counts."""
        return " ".join(f"{e['op']}:{e['f']}" for e in self.events)
