"""C20 executor: one simulated save against the simulated disk, and the invariants.

run_save(recipe, plan, root) is a pure function of (recipe, plan, code under test):
it realises the model, opens the fault window, calls
onnxscript._framework_apis.torch_2_5.save_model_with_external_data, closes the
window, and evaluates I1 (model unchanged), I2 (round trip on success), I3 (refusal
before any write) and I4 (a fault-free retry recovers).
"""
from __future__ import annotations

import os
import pathlib
import shutil
import tempfile

from dsim.common import sha
from dsim.c20 import models
from dsim.c20.simfs import SimFS, SimFault

DEFAULT_CLOCK = [0.0]


# ------------------------------------------------------------------ snapshot (I1)

def snapshot(model) -> dict:
    import onnx_ir as ir

    graphs = []
    for g in model.graphs():
        gi = {"gid": id(g), "name": g.name, "inputs": [id(v) for v in g.inputs],
              "outputs": [id(v) for v in g.outputs], "nodes": [id(n) for n in g], "inits": []}
        for key, v in g.initializers.items():
            t = v.const_value
            d = {"key": key, "vid": id(v), "vname": v.name, "tid": id(t), "tcls": type(t).__name__,
                 "vtype": str(v.type), "vshape": str(v.shape), "vmeta": sorted(v.metadata_props.items())}
            if t is not None:
                # t.name is deliberately not part of the snapshot: serialisation (the snapshot's own
                # included) syncs a tensor's name to its initializer's name, and the property speaks of
                # structure, tensor identity and bytes
                d["dtype"] = str(t.dtype)
                d["shape"] = [str(x) for x in t.shape]
                if isinstance(t, ir.ExternalTensor):
                    d["ext"] = [t.valid(), str(t.location), t.offset, t.length, str(t.base_dir)]
                else:
                    raw = getattr(t, "raw", None)
                    d["raw_id"] = id(raw)           # the object behind the tensor: still the original data, not an equal copy
                    fl = getattr(raw, "flags", None)
                    if fl is not None and hasattr(fl, "writeable"):
                        d["raw_flags"] = [bool(fl.writeable), bool(fl.c_contiguous), bool(fl.f_contiguous)]
                try:
                    d["bytes"] = sha(b"\0".join(t.string_data()) if t.dtype == ir.DataType.STRING else t.tobytes())
                except Exception as e:  # noqa: BLE001 - an unreadable tensor is itself an observation
                    d["bytes"] = f"ERR:{type(e).__name__}"
            gi["inits"].append(d)
        graphs.append(gi)
    try:
        proto = sha(ir.serde.serialize_model(model).SerializeToString(deterministic=True))
    except Exception as e:  # noqa: BLE001
        proto = f"ERR:{type(e).__name__}"
    # what is not an initializer must not move either: attribute tensors (identity), functions, model-level fields
    attrs = []
    for g in model.graphs():
        for n in g:
            for a in n.attributes.values():
                if a.type == ir.AttributeType.TENSOR and not a.is_ref():
                    attrs.append((n.name, a.name, id(a.value)))
    misc = {"functions": [(str(k), id(f)) for k, f in model.functions.items()],
            "opsets": sorted(model.graph.opset_imports.items()), "ir_version": model.ir_version,
            "producer": [model.producer_name, model.producer_version, model.domain, model.model_version, model.doc_string],
            "meta": sorted(model.metadata_props.items())}
    return {"graphs": graphs, "proto": proto, "attrs": attrs, "misc": misc}


def diff_snapshot(a: dict, b: dict) -> list[str]:
    out = []
    if len(a["graphs"]) != len(b["graphs"]):
        return [f"graph count {len(a['graphs'])} -> {len(b['graphs'])}"]
    for ga, gb in zip(a["graphs"], b["graphs"]):
        for k in ("gid", "name", "inputs", "outputs", "nodes"):
            if ga[k] != gb[k]:
                out.append(f"graph {ga['name']}: {k} changed")
        ka, kb = [d["key"] for d in ga["inits"]], [d["key"] for d in gb["inits"]]
        if ka != kb:
            out.append(f"graph {ga['name']}: initializer keys {ka} -> {kb}")
            continue
        for da, db in zip(ga["inits"], gb["inits"]):
            for k in sorted(set(da) | set(db)):
                if da.get(k) != db.get(k):
                    what = {"tid": "tensor identity", "vid": "value identity", "bytes": "tensor bytes", "raw_id": "backing object identity",
                            "ext": "external-tensor state", "tcls": "tensor class"}.get(k, k)
                    shown = "" if k in ("tid", "vid", "raw_id") else f" ({da.get(k)} -> {db.get(k)})"  # no addresses in logs
                    out.append(f"graph {ga['name']}: initializer {da['key']!r}: {what} changed{shown}")
    if a["proto"] != b["proto"]:
        out.append("serialized model changed")
    if [x[:2] for x in a.get("attrs", [])] != [x[:2] for x in b.get("attrs", [])] or a.get("attrs") != b.get("attrs"):
        out.append("a node's tensor attribute was replaced (identity changed)")
    if a.get("misc") != b.get("misc"):
        ka = a.get("misc", {})
        kb = b.get("misc", {})
        for k in sorted(set(ka) | set(kb)):
            if ka.get(k) != kb.get(k):
                shown = "" if k == "functions" else f" ({ka.get(k)} -> {kb.get(k)})"
                out.append(f"model-level {k} changed{shown}")
    return out


def release_externals(model) -> None:
    import onnx_ir as ir

    for g in model.graphs():
        for v in g.initializers.values():
            if isinstance(v.const_value, ir.ExternalTensor):
                v.const_value.release()


# ------------------------------------------------------------------ round trip (I2)

def _walk_proto_graphs(gp, out):
    out[gp.name] = gp
    for n in gp.node:
        for a in n.attribute:
            if a.HasField("g"):
                _walk_proto_graphs(a.g, out)
            for sg in a.graphs:
                _walk_proto_graphs(sg, out)


def _strip_inits(mp):
    import onnx

    c = onnx.ModelProto()
    c.CopyFrom(mp)
    gs: dict = {}
    _walk_proto_graphs(c.graph, gs)
    for g in gs.values():
        del g.initializer[:]
    return c.SerializeToString(deterministic=True)


TAG = {"main_graph": "main", "then_branch": "then", "else_branch": "else", "loop_body": "loop"}


def check_roundtrip(path: str, model, expected: dict, check_ir_load: bool = True) -> list[dict]:
    """Returns a list of problems (each {'what':..., 'reader':...}); empty = round trip holds."""
    import onnx
    import onnx_ir as ir

    probs: list[dict] = []
    path = os.fspath(path)
    base = os.path.dirname(os.path.abspath(path))
    try:
        mp = onnx.load(path, load_external_data=False)
    except Exception as e:  # noqa: BLE001
        return [{"reader": "onnx.load", "what": f"model file unreadable: {type(e).__name__}: {str(e)[:120]}"}]
    orig = ir.serde.serialize_model(model)
    if _strip_inits(mp) != _strip_inits(orig):
        probs.append({"reader": "raw", "what": "graph skeleton differs from the in-memory model"})
    gs: dict = {}
    _walk_proto_graphs(mp.graph, gs)
    ogs: dict = {}
    _walk_proto_graphs(orig.graph, ogs)
    model_file = os.path.basename(path)
    for g in model.graphs():
        want_names = list(g.initializers.keys())
        gp = gs.get(g.name)
        if gp is None:
            probs.append({"reader": "raw", "what": f"graph {g.name} missing"})
            continue
        got_names = [t.name for t in gp.initializer]
        if got_names != want_names:
            probs.append({"reader": "raw", "what": f"graph {g.name}: initializers {got_names} != {want_names}"})
            continue
        for tp in gp.initializer:
            v = g.initializers[tp.name]
            t = v.const_value
            if t is None:
                continue
            want = expected.get((TAG.get(g.name, g.name), tp.name))
            if isinstance(want, tuple):   # ("STRINGS", [...])
                if [bytes(x) for x in tp.string_data] != list(want[1]) or tp.data_type != onnx.TensorProto.STRING:
                    probs.append({"reader": "raw", "dtype": "STRING", "what": f"{tp.name}: string values differ"})
                continue
            if want is None:
                want = t.tobytes()
            if int(t.dtype) != tp.data_type or [int(d) for d in t.shape] != list(tp.dims):
                probs.append({"reader": "raw", "what": f"{tp.name}: dtype/shape differs"})
            otp = next((x for x in ogs[g.name].initializer if x.name == tp.name), None)
            if otp is not None and (otp.doc_string != tp.doc_string or
                                    sorted((m.key, m.value) for m in otp.metadata_props) != sorted((m.key, m.value) for m in tp.metadata_props)):
                probs.append({"reader": "raw", "meta": True, "what": f"{tp.name}: tensor doc_string / metadata_props not preserved"})
            if tp.data_location == onnx.TensorProto.EXTERNAL:
                info = {kv.key: kv.value for kv in tp.external_data}
                loc = info.get("location", "")
                if os.path.dirname(loc) or os.path.isabs(loc) or loc == model_file:
                    probs.append({"reader": "raw", "what": f"{tp.name}: data file {loc!r} is not a sibling of the model file"})
                    continue
                fp = os.path.join(base, loc)
                try:
                    with open(fp, "rb") as f:
                        f.seek(int(info.get("offset", 0)))
                        ln = int(info["length"]) if "length" in info else len(want)
                        got = f.read(ln)
                except OSError as e:
                    probs.append({"reader": "raw", "what": f"{tp.name}: data file unreadable: {e}"})
                    continue
                if got != want:
                    n0 = len(want) - len(want) % 4096
                    n1 = (len(want) - 1) // 4096 * 4096 if want else 0   # start of the tensor's last 4 KiB block, even when that block is full
                    probs.append({"reader": "raw", "dtype": str(t.dtype), "tensor": f"{TAG.get(g.name, g.name)}:{tp.name}",
                                  "confined_to_final_partial_block": got[:n0] == want[:n0],
                                  "confined_to_final_full_block": len(want) % 4096 == 0 and got[:n1] == want[:n1], "what":
                                  f"{tp.name}: external bytes differ (got {len(got)} bytes, want {len(want)}; file size {os.path.getsize(fp)})"})
            else:
                try:
                    got = tp.raw_data if tp.HasField("raw_data") else ir.serde.TensorProtoTensor(tp).tobytes()
                except Exception as e:  # noqa: BLE001
                    probs.append({"reader": "raw", "what": f"{tp.name}: inline tensor unreadable: {type(e).__name__}"})
                    continue
                if got != want:
                    probs.append({"reader": "raw", "dtype": str(t.dtype), "what": f"{tp.name}: inline bytes differ"})
    if check_ir_load:
        # the reader the property names: onnx_ir.load
        try:
            m2 = ir.load(path)
            g2s = {g.name: g for g in m2.graphs()}
            for g in model.graphs():
                g2 = g2s.get(g.name)
                if g2 is None or list(g2.initializers.keys()) != list(g.initializers.keys()):
                    probs.append({"reader": "onnx_ir.load", "what": f"graph {g.name}: initializer set differs"})
                    continue
                for k, v in g.initializers.items():
                    if v.const_value is None:
                        continue
                    want = expected.get((TAG.get(g.name, g.name), k))
                    if isinstance(want, tuple):
                        t2 = g2.initializers[k].const_value
                        if t2 is None or t2.dtype != ir.DataType.STRING or list(t2.string_data()) != list(want[1]):
                            probs.append({"reader": "onnx_ir.load", "dtype": "STRING", "what": f"{k}: loaded string values differ"})
                        continue
                    if want is None:
                        want = v.const_value.tobytes()
                    t2 = g2.initializers[k].const_value
                    try:
                        got = t2.tobytes()
                    except Exception as e:  # noqa: BLE001
                        probs.append({"reader": "onnx_ir.load", "dtype": str(v.const_value.dtype),
                                      "what": f"{k}: loaded tensor unreadable: {type(e).__name__}: {str(e)[:80]}"})
                        continue
                    finally:
                        if isinstance(t2, ir.ExternalTensor):
                            t2.release()
                    if got != want:
                        probs.append({"reader": "onnx_ir.load", "dtype": str(v.const_value.dtype), "what": f"{k}: loaded bytes differ"})
        except Exception as e:  # noqa: BLE001
            probs.append({"reader": "onnx_ir.load", "what": f"load raised {type(e).__name__}: {str(e)[:120]}"})
    return probs


# ------------------------------------------------------------------ one simulated save

def _tree(root: str) -> list:
    """Everything under the sandbox incl. directories and modification times (for 'before writing anything')."""
    out = []
    for d, dirs, fs in os.walk(root):
        for x in sorted(dirs) + sorted(fs):
            p = os.path.join(d, x)
            st = os.lstat(p)
            out.append((os.path.relpath(p, root), st.st_size if not os.path.isdir(p) else -1, st.st_mtime_ns, st.st_mode))
    return sorted(out)


def _listing(root: str) -> list:
    out = []
    for d, _, fs in os.walk(root):
        for f in sorted(fs):
            p = os.path.join(d, f)
            out.append((os.path.relpath(p, root), os.path.getsize(p)))
    return sorted(out)


def _call_path(cfg: dict, sandbox: str):
    form = cfg.get("path_form", "abs")
    name = cfg.get("file_name", "model.onnx")
    if form == "abs":
        d = os.path.join(sandbox, "out")
        os.makedirs(d, exist_ok=True)
        p, real = os.path.join(d, name), os.path.join(d, name)
    elif form == "rel":
        p, real = name, os.path.join(sandbox, name)
    elif form == "missingdir":
        p = real = os.path.join(sandbox, "no", "such", "dir", name)
    else:  # nested relative
        d = os.path.join(sandbox, "a", "b.c")
        os.makedirs(d, exist_ok=True)
        p, real = os.path.join("a", "b.c", name), os.path.join(d, name)
    if cfg.get("path_type") == "pathlib":
        p = pathlib.Path(p)
    return p, real


def run_save(recipe: dict, plan: dict | None, root: str, retry: bool = True) -> dict:
    """Execute one simulated save. Returns the run record (JSON-able)."""
    from onnxscript._framework_apis import torch_2_5

    cfg = recipe.get("cfg", {})
    _reset_tqdm()
    sandbox = tempfile.mkdtemp(prefix="sb-", dir=root)
    cwd = os.getcwd()
    rec: dict = {"violations": []}
    try:
        model, expected = models.build(recipe, sandbox)
        os.chdir(sandbox)
        call_path, real_path = _call_path(cfg, sandbox)
        pre = cfg.get("preexisting", "none") if cfg.get("path_form") != "missingdir" else "none"
        if pre == "symlink_model":
            store = os.path.join(sandbox, "store")
            os.makedirs(store, exist_ok=True)
            blob = os.path.join(store, "blob-0001")
            with open(blob, "wb") as f:
                f.write(b"old-blob" * 40)
            os.symlink(os.path.relpath(blob, os.path.dirname(real_path)), real_path)
        if pre == "symlink_dir" and cfg.get("path_form") == "abs":
            # <sandbox>/out is replaced by a symlink to <sandbox>/realdir
            d = os.path.dirname(real_path)
            os.rmdir(d)
            os.makedirs(os.path.join(sandbox, "realdir"), exist_ok=True)
            os.symlink(os.path.join(sandbox, "realdir"), d)
        if pre in ("both", "model_only"):
            with open(real_path, "wb") as f:
                f.write(b"stale-model" * 50)
        if pre in ("both", "data_only"):
            with open(real_path + ".data", "wb") as f:
                f.write(b"\xaa" * 30000)
        if cfg.get("preexisting_readonly"):
            for stale in (real_path, real_path + ".data"):
                if os.path.isfile(stale) and not os.path.islink(stale):
                    os.chmod(stale, 0o444)
        if cfg.get("decoy_first"):
            # another, unrelated model saved by the same process just before (module-level state between two saves of
            # *different* models); no faults, its own directory, result not judged
            _save_decoy(sandbox, torch_2_5)
        snap0 = snapshot(model)
        if not cfg.get("ext_preloaded", False):
            release_externals(model)
        listing0 = _listing(sandbox)
        tree0 = _tree(sandbox)
        has_uninit = bool(recipe.get("uninit"))

        fs = SimFS(sandbox, plan, hide_fileno=cfg.get("backend") == "nofileno",
                   clock_steps=cfg.get("clock") or DEFAULT_CLOCK)
        outcome, exc = "returned", None
        with fs:
            try:
                torch_2_5.save_model_with_external_data(model, call_path, verbose=bool(cfg.get("verbose")))
            except Exception as e:  # noqa: BLE001
                outcome, exc = "raised", e
        rec["outcome"] = outcome
        rec["exc"] = None if exc is None else type(exc).__name__
        rec["exc_injected"] = isinstance(exc, SimFault) or any(
            isinstance(x, SimFault) for x in _chain(exc))
        rec["events"] = fs.events
        rec["fired"] = fs.fired
        rec["missed"] = fs.missed
        rec["notes"] = fs.notes
        rec["shape"] = fs.shape()
        rec["clock_reads"] = fs.clock.reads
        rec["stderr_writes"] = len(fs.stream.buf)
        faulted = bool(fs.fired) or (plan or {}).get("fsize") is not None

        # I1 — always
        d = diff_snapshot(snap0, snapshot(model))
        if d:
            rec["violations"].append({"class": "model-changed", "detail": d[:6]})
        if not cfg.get("ext_preloaded", False):
            release_externals(model)

        # I3 — refusal
        if has_uninit:
            if outcome == "returned":
                rec["violations"].append({"class": "no-refusal", "detail":
                                          [f"uninitialized initializers {[(u['name'], u['where']) for u in recipe['uninit']]} accepted"]})
            else:
                if not isinstance(exc, ValueError):
                    rec["violations"].append({"class": "no-refusal", "detail": [f"raised {type(exc).__name__}, not ValueError"]})
                if fs.events or _listing(sandbox) != listing0 or _tree(sandbox) != tree0:
                    changed = sorted(set(x[0] for x in set(_tree(sandbox)) ^ set(tree0)))[:5]
                    rec["violations"].append({"class": "wrote-before-refusing", "detail":
                                              [f"{len(fs.events)} fs events before the refusal", fs.shape()[:200],
                                               f"files/directories created or touched: {changed}"]})
        else:
            unsavable = any(e.get("kind") == "lazy_fail" for e in recipe["inits"])
            if outcome == "raised" and not faulted and cfg.get("path_form") == "missingdir" and isinstance(exc, OSError):
                pass  # the destination directory does not exist: failing is right; I1 above still applies
            elif outcome == "raised" and unsavable and not isinstance(exc, OSError):
                pass  # a tensor cannot be materialised: the save has to fail (with that error); I1 above still applies
            elif outcome == "raised" and not faulted:
                rec["violations"].append({"class": "fault-free-save-failed", "detail": [f"{type(exc).__name__}: {str(exc)[:200]}"]})
            # I2 — whenever the call returned normally
            if outcome == "returned":
                probs = check_roundtrip(real_path, model, expected)
                rec["violations"] += _roundtrip_violations(probs, "success-but-bad-roundtrip")
                d = diff_snapshot(snap0, snapshot(model))
                if d and not rec["violations"]:
                    rec["violations"].append({"class": "model-changed", "detail": ["after reading back"] + d[:5]})
                # I5 — a second save of the same model elsewhere (fault-free runs only): state kept between calls must
                # neither break the second result nor reach back into the first destination's files
                if plan is None and not rec["violations"] and cfg.get("second_save", True):
                    d2 = os.path.join(sandbox, "second")
                    os.makedirs(d2, exist_ok=True)
                    path2 = os.path.join(d2, "copy_" + cfg.get("file_name", "model.onnx"))
                    fs3 = SimFS(sandbox, None, hide_fileno=cfg.get("backend") == "nofileno",
                                clock_steps=cfg.get("clock") or DEFAULT_CLOCK)
                    exc3 = None
                    with fs3:
                        try:
                            torch_2_5.save_model_with_external_data(model, path2, verbose=bool(cfg.get("verbose")))
                        except Exception as e:  # noqa: BLE001
                            exc3 = e
                    rec["second_save"] = "returned" if exc3 is None else f"raised {type(exc3).__name__}"
                    if exc3 is not None:
                        rec["violations"].append({"class": "second-save-fails", "detail": [f"{type(exc3).__name__}: {str(exc3)[:200]}"]})
                    else:
                        rec["violations"] += _roundtrip_violations(check_roundtrip(path2, model, expected), "second-save-bad-roundtrip")
                        rec["violations"] += _roundtrip_violations(check_roundtrip(real_path, model, expected), "first-destination-damaged")
                        d = diff_snapshot(snap0, snapshot(model))
                        if d:
                            rec["violations"].append({"class": "model-changed", "detail": ["after a second save"] + d[:5]})
                        # ... and a third save, onto the first destination again (its files now exist and were written by us)
                        if not rec["violations"]:
                            fs4 = SimFS(sandbox, None, hide_fileno=cfg.get("backend") == "nofileno",
                                        clock_steps=cfg.get("clock") or DEFAULT_CLOCK)
                            exc4 = None
                            with fs4:
                                try:
                                    torch_2_5.save_model_with_external_data(model, call_path, verbose=bool(cfg.get("verbose")))
                                except Exception as e:  # noqa: BLE001
                                    exc4 = e
                            rec["resave"] = "returned" if exc4 is None else f"raised {type(exc4).__name__}"
                            if exc4 is not None:
                                rec["violations"].append({"class": "resave-fails", "detail": [f"{type(exc4).__name__}: {str(exc4)[:200]}"]})
                            else:
                                rec["violations"] += _roundtrip_violations(check_roundtrip(real_path, model, expected), "resave-bad-roundtrip")
                                rec["violations"] += _roundtrip_violations(check_roundtrip(path2, model, expected), "second-destination-damaged")
                                d = diff_snapshot(snap0, snapshot(model))
                                if d:
                                    rec["violations"].append({"class": "model-changed", "detail": ["after saving onto the first destination again"] + d[:5]})
                # I6 — the caller edits the model and saves the same object again: the edit must be honoured (new bytes and
                # new initializers round-trip; a model that now has an uninitialized initializer is refused before anything is
                # written), and the edited model is again left untouched
                if plan is None and not rec["violations"] and cfg.get("edit", "none") != "none":
                    rec["violations"] += _edited_save(model, expected, cfg, sandbox, torch_2_5, rec)
            # I4 — bounded recovery: faults have stopped, one retry must succeed and round-trip
            if retry and faulted and outcome == "raised" and cfg.get("path_form") != "missingdir" and not unsavable:
                fs2 = SimFS(sandbox, None, hide_fileno=cfg.get("backend") == "nofileno",
                            clock_steps=cfg.get("clock") or DEFAULT_CLOCK)
                exc2 = None
                with fs2:
                    try:
                        torch_2_5.save_model_with_external_data(model, call_path, verbose=bool(cfg.get("verbose")))
                    except Exception as e:  # noqa: BLE001
                        exc2 = e
                rec["retry"] = "returned" if exc2 is None else f"raised {type(exc2).__name__}"
                if exc2 is not None:
                    rec["violations"].append({"class": "retry-fails", "detail": [f"{type(exc2).__name__}: {str(exc2)[:200]}"]})
                else:
                    probs = check_roundtrip(real_path, model, expected)
                    rec["violations"] += _roundtrip_violations(probs, "retry-bad-roundtrip")
                    d = diff_snapshot(snap0, snapshot(model))
                    if d:
                        rec["violations"].append({"class": "model-changed", "detail": ["after retry"] + d[:5]})
        for v in rec["violations"]:  # no scratch paths in logs / digests
            v["detail"] = [str(x).replace(sandbox, "<sandbox>").replace(root, "<root>") for x in v.get("detail", [])]
        rec["files"] = [n for n, _ in _listing(sandbox)]
        rec["sizes"] = {n: s for n, s in _listing(sandbox)}
        return rec
    finally:
        os.chdir(cwd)
        shutil.rmtree(sandbox, ignore_errors=True)


def _edited_save(model, expected: dict, cfg: dict, sandbox: str, torch_2_5, rec: dict) -> list[dict]:
    import numpy as np
    import onnx_ir as ir

    graphs = list(model.graphs())
    g = graphs[0] if cfg.get("edit_where") == "first" else graphs[-1]
    tag = TAG.get(g.name, g.name)
    edit = cfg["edit"]
    expected = dict(expected)
    F = ir.DataType.FLOAT
    expect_refusal = False
    if edit == "new_bytes":
        cands = [(k, v) for k, v in g.initializers.items() if v.const_value is not None and v.const_value.dtype == F
                 and type(v.const_value).__name__ == "Tensor" and v.const_value.size > 0]
        if not cands:
            return []
        k, v = cands[0]
        arr = np.asarray(v.const_value.numpy(), dtype=np.float32).copy()
        with np.errstate(all="ignore"):
            arr = arr + 1.5
        arr = np.nan_to_num(arr, nan=7.25, posinf=3.5, neginf=-3.5)
        v.const_value = ir.tensor(arr, name=v.const_value.name)
        expected[(tag, k)] = arr.tobytes()
    elif edit == "add_init":
        arr = np.arange(100, dtype=np.float32) * 0.5
        v = ir.Value(name="edit_added", shape=ir.Shape([100]), type=ir.TensorType(F), const_value=ir.tensor(arr, name="edit_added"))
        g.initializers["edit_added"] = v
    elif edit == "uninit_added":
        v = ir.Value(name="edit_uninit", shape=ir.Shape([2]), type=ir.TensorType(F))
        g.initializers["edit_uninit"] = v
        expect_refusal = True
    elif edit == "uninit_in_place":
        cands = [(k, v) for k, v in g.initializers.items() if v.const_value is not None]
        if not cands:
            return []
        cands[-1][1].const_value = None
        expect_refusal = True
    elif edit == "uninit_replaced":
        # an initializer nobody consumes is replaced by an uninitialized value of the same name
        cands = [(k, v) for k, v in g.initializers.items() if v.const_value is not None and not v.uses() and not v.is_graph_input()
                 and not v.is_graph_output()]
        if not cands:
            return []
        k, v = cands[0]
        del g.initializers[k]
        g.initializers[k] = ir.Value(name=k, shape=v.shape, type=v.type)
        expect_refusal = True
    rec["edit"] = edit
    snap1 = snapshot(model)
    release_externals(model)
    d3 = os.path.join(sandbox, "edited")
    os.makedirs(d3, exist_ok=True)
    tree1 = _tree(sandbox)
    path3 = os.path.join(d3, "edited_" + cfg.get("file_name", "model.onnx"))
    fs5 = SimFS(sandbox, None, hide_fileno=cfg.get("backend") == "nofileno", clock_steps=cfg.get("clock") or DEFAULT_CLOCK)
    exc5 = None
    with fs5:
        try:
            torch_2_5.save_model_with_external_data(model, path3, verbose=bool(cfg.get("verbose")))
        except Exception as e:  # noqa: BLE001
            exc5 = e
    rec["edited_save"] = "returned" if exc5 is None else f"raised {type(exc5).__name__}"
    out: list[dict] = []
    if expect_refusal:
        if exc5 is None:
            out.append({"class": "no-refusal", "detail": [f"after the edit '{edit}' (graph {tag}) the model has an uninitialized initializer, "
                                                          "but a save of the same model object was accepted"]})
        elif not isinstance(exc5, ValueError):
            out.append({"class": "no-refusal", "detail": [f"after the edit '{edit}': raised {type(exc5).__name__}, not ValueError"]})
        elif fs5.events or _tree(sandbox) != tree1:
            out.append({"class": "wrote-before-refusing", "detail": [f"after the edit '{edit}': {len(fs5.events)} fs events before the refusal"]})
    elif exc5 is not None:
        out.append({"class": "edited-save-fails", "detail": [f"after the edit '{edit}': {type(exc5).__name__}: {str(exc5)[:200]}"]})
    else:
        out += _roundtrip_violations(check_roundtrip(path3, model, expected), "edited-save-bad-roundtrip")
    d = diff_snapshot(snap1, snapshot(model))
    if d:
        out.append({"class": "model-changed", "detail": [f"after the save that followed the edit '{edit}'"] + d[:5]})
    return out


def _save_decoy(sandbox: str, torch_2_5) -> None:
    import numpy as np
    import onnx_ir as ir

    F = ir.DataType.FLOAT
    x = ir.Value(name="x", shape=ir.Shape([2]), type=ir.TensorType(F))
    vals = []
    for i, n in enumerate((300, 80, 1000)):
        t = ir.tensor(np.arange(n, dtype=np.float32) + i, name=f"w_{i}")
        vals.append(ir.Value(name=f"w_{i}", shape=ir.Shape([n]), type=ir.TensorType(F), const_value=t))
    node = ir.node("Identity", inputs=[x], name="decoy_id")
    node.outputs[0].name = "y"
    g = ir.Graph([x], [node.outputs[0]], nodes=[node], initializers=vals, opset_imports={"": 21}, name="decoy_graph")
    d = os.path.join(sandbox, "decoy")
    os.makedirs(d, exist_ok=True)
    try:
        torch_2_5.save_model_with_external_data(ir.Model(g, ir_version=10), os.path.join(d, "model.onnx"))
    except Exception:  # noqa: BLE001 - the decoy's own outcome is not the subject
        pass


def _reset_tqdm():
    """Each simulated save starts from a process in which no progress bar is alive: a bar leaked by an
    earlier *faulted* run (its close() failed on the simulated stream) would otherwise shift the
    position, and hence the stderr event stream, of later runs at the whim of the garbage collector."""
    try:
        import tqdm

        for inst in list(getattr(tqdm.tqdm, "_instances", [])):
            inst.disable = True
        tqdm.tqdm._instances.clear()
    except Exception:  # noqa: BLE001
        pass


def _roundtrip_violations(probs: list[dict], cls: str) -> list[dict]:
    """One violation per *kind* of round-trip problem, so that each can be matched (or not) on its own:
    tensor-level metadata lost / 2-bit tensors unreadable by onnx_ir.load only / everything else."""
    groups: dict[str, list[dict]] = {"meta": [], "twobit_reader": [], "other": []}
    for p in probs:
        if p.get("meta"):
            groups["meta"].append(p)
        elif p["reader"] == "onnx_ir.load" and p.get("dtype") in ("INT2", "UINT2"):
            groups["twobit_reader"].append(p)
        else:
            groups["other"].append(p)
    out = []
    for ps in groups.values():
        if not ps:
            continue
        out.append({"class": cls, "detail": [p["what"] for p in ps[:6]],
                    "raw_damaged": sorted({p["tensor"] for p in ps if "tensor" in p}),
                    "meta_lost_only": all(p.get("meta") for p in ps),
                    "raw_confined": all(p.get("confined_to_final_partial_block", False) for p in ps if p["reader"] == "raw"),
                    "raw_confined_full": all(p.get("confined_to_final_partial_block", False) or p.get("confined_to_final_full_block", False)
                                             for p in ps if p["reader"] == "raw"),
                    "readers": sorted({p["reader"] for p in ps}),
                    "dtypes": sorted({p.get("dtype", "") for p in ps} - {""})})
    return out


def _chain(e):
    seen = 0
    while e is not None and seen < 10:
        yield e
        e = e.__cause__ or e.__context__
        seen += 1


def digest(rec: dict) -> str:
    """Event-log digest used by the determinism self-test."""
    from dsim.common import jdump

    keep = {k: rec.get(k) for k in ("outcome", "exc", "events", "fired", "missed", "notes", "violations",
                                    "retry", "second_save", "resave", "edit", "edited_save", "files", "sizes", "clock_reads", "stderr_writes")}
    return sha(jdump(keep).encode())
