"""Seeded workload for C20: model recipes (JSON) and their realisation as ir.Model.

A recipe is plain data so that a replay file embeds the literal case and does not
depend on generator drift. `build()` is deterministic in (recipe, sandbox dir).
"""
from __future__ import annotations

import os

import numpy as np

from dsim.prng import Rng

# dtype name -> weight in the generator
DTYPES = [
    ("FLOAT", 10), ("DOUBLE", 3), ("FLOAT16", 4), ("BFLOAT16", 4),
    ("INT64", 4), ("INT32", 3), ("INT16", 1), ("INT8", 2),
    ("UINT8", 2), ("UINT16", 1), ("UINT32", 1), ("UINT64", 1),
    ("BOOL", 2), ("COMPLEX64", 1), ("COMPLEX128", 1),
    ("FLOAT8E4M3FN", 2), ("FLOAT8E4M3FNUZ", 1), ("FLOAT8E5M2", 1), ("FLOAT8E5M2FNUZ", 1),
    ("FLOAT8E8M0", 1), ("INT4", 2), ("UINT4", 2), ("FLOAT4E2M1", 1), ("INT2", 1), ("UINT2", 1),
]
SUBBYTE = {"INT4": 4, "UINT4": 4, "FLOAT4E2M1": 4, "INT2": 2, "UINT2": 2}

KINDS = [("np", 10), ("proto", 4), ("lazy", 3), ("packed", 2), ("ext", 4), ("bytesonly", 2), ("torch", 5), ("np_view", 2)]
# "np_view": a non-contiguous numpy view (transposed / strided / Fortran-ordered); its bytes are those of the C-ordered values
# "lazy_fail": a LazyTensor whose evaluation raises (RuntimeError / MemoryError): a failure in the middle of the save that
# is not an OSError and does not come from a file-system call; assigned to at most one tensor of ~8 % of the cases
# what the torch exporter really hands over: onnx_ir.tensor_adapters.TorchTensor (its tofile() is a Python-level write)
TORCH_DTYPES = {"FLOAT": "float32", "DOUBLE": "float64", "FLOAT16": "float16", "BFLOAT16": "bfloat16", "INT8": "int8",
                "INT16": "int16", "INT32": "int32", "INT64": "int64", "UINT8": "uint8", "BOOL": "bool",
                "COMPLEX64": "complex64", "COMPLEX128": "complex128", "FLOAT8E4M3FN": "float8_e4m3fn",
                "FLOAT8E4M3FNUZ": "float8_e4m3fnuz", "FLOAT8E5M2": "float8_e5m2", "FLOAT8E5M2FNUZ": "float8_e5m2fnuz"}
WHERE = [("main", 10), ("then", 2), ("else", 1), ("loop", 2)]

# byte sizes worth hitting: 0, scalar, around the 256-byte externalisation threshold,
# around the 4 KiB stdio buffer, multi-buffer
SIZE_CLASSES_QUICK = [0, 1, 200, 256, 257, 300, 1000, 4095, 4096, 4097, 9000, 20000]
SIZE_CLASSES_THOROUGH = SIZE_CLASSES_QUICK + [65536, 70001, 1048576 + 8, 1300000]


def _itemsize_bits(dtype: str) -> int:
    import onnx_ir as ir

    return ir.DataType[dtype].bitwidth


def gen_recipe(rng: Rng, tier: str, idx: int) -> dict:
    """Draw one case. Swarm style: each case draws its own mix."""
    n = rng.weighted([(0, 1), (1, 3), (2, 4), (3, 4), (4, 3), (5, 2), (7, 1), (10, 1)])
    sizes = SIZE_CLASSES_THOROUGH if tier == "thorough" else SIZE_CLASSES_QUICK
    big_budget = 1 if (tier == "thorough" or idx % 24 == 7) else 0
    if big_budget and tier != "thorough":
        sizes = sizes + [1048576 + 8, 1048576 + 8]  # >= 1 MiB: the writer pads the offset to a 64 KiB boundary
    allow_ext = rng.chance(0.5)
    allow_sub = rng.chance(0.4)
    inits = []
    for i in range(n):
        dtype = rng.weighted(DTYPES)
        bits = _itemsize_bits(dtype)
        target = rng.choice(sizes)
        if target > 200000:
            if big_budget <= 0:
                target = rng.choice(SIZE_CLASSES_QUICK)
            else:
                big_budget -= 1
        nelem = (target * 8) // bits
        if target and nelem == 0:
            nelem = 1
        # shape: scalar, 1-D, 2-D or with a zero dim
        if nelem == 0:
            shape = rng.choice([[0], [0, 3], [2, 0, 2]])
        elif nelem == 1:
            shape = rng.choice([[], [1], [1, 1]])
        else:
            r = rng.below(3)
            if r == 0 or nelem < 4:
                shape = [nelem]
            else:
                a = rng.choice([2, 3, 4, 5, 8])
                shape = [a, max(1, nelem // a)]
        kind = rng.weighted(KINDS)
        if kind == "ext" and not allow_ext:
            kind = "np"
        if kind == "packed" and dtype not in SUBBYTE:
            kind = "np"
        if kind == "torch" and dtype not in TORCH_DTYPES:
            kind = "np"
        if kind in ("proto", "lazy", "bytesonly", "ext") and dtype in ("INT2", "UINT2"):
            # onnx_ir 1.0.0 cannot read 2-bit tensors back from TensorProto / external files
            # (its own reader miscounts the packed length): such an *input* would be invalid
            kind = "np"
        where = rng.weighted(WHERE) if allow_sub else "main"
        e = {
            "name": rng.choice(["w", "weight", "p.layer", "b", "mod/param", "t", "model.onnx.data", "a b", "w\u00e9"]) + f"_{i}",
            "dtype": dtype, "shape": shape, "kind": kind, "where": where,
            "fill": rng.u64() & 0xFFFFFFFF,
            "as_input": where == "main" and rng.chance(0.1),
            "used": rng.chance(0.7),
            "as_output": where == "main" and rng.chance(0.08),
            "meta": rng.chance(0.15),
        }
        if kind == "ext":
            # source files elsewhere in the sandbox; "sub/<name>.data" has the very name the destination's data file will
            # have, in another directory (a model loaded from one place and saved to another)
            e["ext_file"] = rng.choice(["src0.bin", "src1.bin", "sub/src2.bin", "sub/@DATA@"])
            e["ext_pad"] = rng.choice([0, 0, 3, 64])
        inits.append(e)
    # a model assembled from several exports: two (or three) already-external initializers that live in DIFFERENT directories
    # under the SAME relative file name, at the same offset, with the same dtype, shape and length — and other contents
    tw = rng.sub("ext-twins")
    if allow_ext and tw.chance(0.3):
        dtype = tw.choice(["FLOAT", "FLOAT", "FLOAT16", "INT64", "UINT8"])
        nelem = tw.choice([100, 300, 1024, 16])
        pad = tw.choice([0, 0, 64])
        where = tw.weighted(WHERE) if allow_sub else "main"
        for d in ["enc", "dec", "aux"][:tw.choice([2, 2, 3])]:
            inits.append({"name": f"{d}.norm.weight", "dtype": dtype, "shape": [nelem], "kind": "ext",
                          "where": where if tw.chance(0.7) else "main", "fill": tw.u64() & 0xFFFFFFFF,
                          "as_input": False, "used": tw.chance(0.7), "as_output": False, "meta": False,
                          "ext_file": f"{d}/weights.bin", "ext_pad": pad})
        n = len(inits)
    # one tensor object shared by two initializers
    if n >= 2 and rng.chance(0.15):
        j = rng.below(n - 1)
        inits[-1]["share_with"] = j
        if rng.chance(0.6):
            inits[-1]["where"] = inits[j]["where"]  # else: one tensor object under initializers of two different graphs
    # initializer names are unique per graph only: let some names collide across graphs
    for i, e in enumerate(inits):
        if i and rng.chance(0.12):
            other = inits[rng.below(i)]
            if other["where"] != e["where"] and all(x["name"] != other["name"] for x in inits if x["where"] == e["where"]):
                e["name"] = other["name"]
    n_uninit = rng.weighted([(0, 12), (1, 2), (2, 1)])
    uninit = []
    for u in range(n_uninit):
        where = rng.weighted([("main", 5), ("then", 2), ("else", 1), ("loop", 2)])
        name = f"u_{u}"
        twins = [x["name"] for x in inits if x["where"] != where and all(y["name"] != x["name"] for y in inits if y["where"] == where)]
        if twins and rng.chance(0.5):
            name = rng.choice(twins)  # same name as an *initialized* initializer of another graph
        elif rng.chance(0.5):
            # ... or give it an initialized twin of the same name in another graph (visited before or after it)
            g2 = rng.choice([g for g in ("main", "then", "else", "loop") if g != where])
            inits.append({"name": name, "dtype": "FLOAT", "shape": [3], "kind": "np", "where": g2, "fill": rng.u64() & 0xFFFFFFFF,
                          "as_input": False, "used": rng.chance(0.5), "as_output": False, "meta": False})
        uninit.append({"name": name, "pos": rng.below(n + 1), "where": where})
    fname = rng.choice(["model.onnx", "m.onnx", "model.v2.onnx", "net", "a.b.c.onnx", "model.textproto", "weights.data",
                        "mod\u00e8le v1.onnx"])
    extras = {"metadata": rng.chance(0.3), "function": rng.chance(0.2), "big_const_attr": rng.chance(0.25),
              "value_info": rng.chance(0.3)}
    for e in inits:
        if rng.chance(0.1) and e["kind"] in ("np", "torch", "packed"):
            e["tensor_name"] = e["name"] + "__tensor"   # the tensor's own name differs from its initializer's name
    cfg = {
        "path_type": rng.choice(["str", "pathlib"]),
        "path_form": rng.weighted([("abs", 8), ("rel", 4), ("nested", 4), ("missingdir", 1)]),
        "file_name": fname,
        "verbose": rng.chance(0.3),
        "backend": rng.weighted([("fd", 3), ("nofileno", 2)]),
        # symlink_model: the destination itself is a symlink to a blob elsewhere (cache-style layout);
        # symlink_dir: its parent directory is a symlink
        "preexisting": rng.weighted([("none", 8), ("both", 4), ("data_only", 2), ("model_only", 2), ("symlink_model", 2), ("symlink_dir", 1)]),
    }
    for e in inits:
        if e.get("ext_file") == "sub/@DATA@":
            e["ext_file"] = "sub/" + fname + ".data"
    if rng.chance(0.12):
        # a small STRING initializer (labels / vocabulary): never externalised, has to survive the save inline
        inits.append({"name": f"labels_{len(inits)}", "dtype": "STRING", "shape": [rng.randint(1, 4)], "kind": "string",
                      "where": rng.weighted(WHERE) if allow_sub else "main", "fill": rng.u64() & 0xFFFFFFFF,
                      "as_input": False, "used": False, "as_output": False, "meta": False})
    if inits and rng.chance(0.08):
        big = [e for e in inits if e["kind"] in ("np", "lazy", "proto") and "share_with" not in e
               and not any(x.get("share_with") == inits.index(e) for x in inits)]
        if big:
            e = rng.choice(big)
            e["kind"] = "lazy_fail"
            e["fail_with"] = rng.choice(["RuntimeError", "MemoryError", "ValueError"])
    cfg["preexisting_readonly"] = rng.sub("ro").chance(0.35)   # stale destination files without write permission (0444)
    # what the caller does to the model between two saves of the same object (state keyed on the model object or its shape
    # must not survive an edit): give an initializer other bytes, add an initializer, add or create an uninitialized one
    cfg["edit"] = rng.sub("edit").weighted([("none", 3), ("new_bytes", 2), ("add_init", 2), ("uninit_added", 3), ("uninit_in_place", 1),
                                            ("uninit_replaced", 2)])
    cfg["edit_where"] = rng.sub("edit-where").choice(["first", "last"])
    return {"idx": idx, "inits": inits, "uninit": uninit, "cfg": cfg, "extras": extras}


# ------------------------------------------------------------------ realisation

def _raw_bytes(dtype: str, shape: list[int], fill: int) -> bytes:
    """Packed little-endian bytes for the tensor (what tobytes() must return)."""
    bits = _itemsize_bits(dtype)
    n = int(np.prod(shape)) if shape else 1
    nbytes = (n * bits + 7) // 8
    b = bytearray(Rng(fill).bytes(nbytes))
    if dtype == "BOOL":
        b = bytearray(x & 1 for x in b)
    if dtype in SUBBYTE and nbytes:
        # zero the padding bits of the last byte so packed representations are canonical
        used = (n * bits) % 8
        if used:
            b[-1] &= (1 << used) - 1
    return bytes(b)


def _np_array(dtype: str, shape: list[int], raw: bytes):
    import onnx_ir as ir

    dt = ir.DataType[dtype]
    if dtype in SUBBYTE:
        from onnx_ir import _type_casting

        packed = np.frombuffer(raw, dtype=np.uint8)
        if SUBBYTE[dtype] == 4:
            arr = _type_casting.unpack_4bitx2(packed, shape)
        else:
            arr = _type_casting.unpack_2bitx4(packed, shape)
        return arr.view(dt.numpy())
    arr = np.frombuffer(raw, dtype=np.dtype(dt.numpy()).newbyteorder("<")).reshape(shape)
    return arr.copy()


def make_tensor(e: dict, sandbox: str):
    """Build the tensor object for one recipe entry. Returns (tensor, raw_bytes)."""
    import onnx
    import onnx_ir as ir

    dtype, shape, kind = e["dtype"], e["shape"], e["kind"]
    if kind == "string":
        r = Rng(e["fill"])
        strs = [r.choice([b"cat", b"dog", b"", b"a longer label", "\u00e9t\u00e9".encode()]) for _ in range(shape[0])]
        return ir.StringTensor(strs, shape=ir.Shape(shape), name=e.get("tensor_name", e["name"])), ("STRINGS", strs)
    raw = _raw_bytes(dtype, shape, e["fill"])
    dt = ir.DataType[dtype]
    name = e.get("tensor_name", e["name"])
    if kind == "np_view" and (dtype in SUBBYTE or len(shape) < 2 or 0 in shape):
        kind = "np"
    if kind == "np_view":
        base = _np_array(dtype, shape, raw)            # the logical (C-ordered) values
        how = e["fill"] % 3
        if how == 0:
            view = np.asfortranarray(base)             # same values, column-major storage
        elif how == 1:
            view = np.ascontiguousarray(base.T).T      # a transposed view of another buffer
        else:
            wide = np.zeros((shape[0], shape[1] * 2) + tuple(shape[2:]), dtype=base.dtype)
            wide[:, ::2] = base
            view = wide[:, ::2]                        # a strided view
        t = ir.Tensor(view, dtype=dt, name=name)
    elif kind == "np":
        t = ir.Tensor(_np_array(dtype, shape, raw), dtype=dt, name=name)
    elif kind == "bytesonly":
        # a Tensor whose backing object is not an ndarray: takes the file.write(tobytes()) branch
        tp = onnx.TensorProto(name=name, data_type=int(dt), dims=shape, raw_data=raw)
        t = ir.Tensor(ir.serde.TensorProtoTensor(tp), dtype=dt, shape=ir.Shape(shape), name=name)
    elif kind == "proto":
        tp = onnx.TensorProto(name=name, data_type=int(dt), dims=shape, raw_data=raw)
        t = ir.serde.TensorProtoTensor(tp)
    elif kind == "lazy":
        arr = _np_array(dtype, shape, raw)
        t = ir.LazyTensor(lambda arr=arr, dt=dt, name=name: ir.Tensor(arr, dtype=dt, name=name),
                          dtype=dt, shape=ir.Shape(shape), name=name)
    elif kind == "lazy_fail":
        exc = {"RuntimeError": RuntimeError, "MemoryError": MemoryError, "ValueError": ValueError}[e.get("fail_with", "RuntimeError")]

        def boom(exc=exc, name=name):
            raise exc(f"cannot materialise {name}")

        t = ir.LazyTensor(boom, dtype=dt, shape=ir.Shape(shape), name=name)
    elif kind == "packed":
        packed = np.frombuffer(raw, dtype=np.uint8).copy()
        t = ir.PackedTensor(packed, dt, shape=ir.Shape(shape), name=name)
    elif kind == "torch":
        import torch
        from onnx_ir import tensor_adapters

        tdt = getattr(torch, TORCH_DTYPES[dtype])
        if dtype in ("BFLOAT16",) or dtype.startswith("FLOAT8"):
            width = {1: np.uint8, 2: np.uint16}[max(1, _itemsize_bits(dtype) // 8)]
            base = torch.from_numpy(np.frombuffer(raw, dtype=width).copy().reshape(shape))
            tt = base.view(tdt)
        else:
            tt = torch.from_numpy(_np_array(dtype, shape, raw))
        t = tensor_adapters.TorchTensor(tt, name=name)
    elif kind == "ext":
        path = os.path.join(sandbox, e["ext_file"])
        os.makedirs(os.path.dirname(path), exist_ok=True)
        with open(path, "ab") as f:
            f.write(b"\xee" * e.get("ext_pad", 0))
            off = f.tell()
            f.write(raw)
        # a source in a sub-directory is referred to the way a model loaded from that directory would: location = the bare
        # file name, base_dir = that directory
        sub, loc = os.path.split(e["ext_file"])
        t = ir.ExternalTensor(loc, off, len(raw), dt, shape=ir.Shape(shape), name=name,
                              base_dir=os.path.join(sandbox, sub) if sub else sandbox)
    else:
        raise ValueError(kind)
    if e.get("meta"):
        try:
            t.doc_string = f"doc of {name}"
            t.metadata_props["origin"] = "dsim"
        except Exception:  # noqa: BLE001 - some tensor classes are read-only
            pass
    return t, raw


def build(recipe: dict, sandbox: str):
    """Realise the recipe. Returns (model, expected) where expected maps
    (graph_tag, initializer name) -> raw bytes."""
    import onnx_ir as ir

    F = ir.DataType.FLOAT
    graphs: dict[str, list] = {"main": [], "then": [], "else": [], "loop": []}
    expected: dict[tuple, bytes] = {}
    tensors: list = []
    entries = recipe["inits"]
    uninit_at: dict[int, list] = {}
    for u in recipe["uninit"]:
        uninit_at.setdefault(u["pos"], []).append(u)

    def add_uninit(pos):
        for u in uninit_at.get(pos, []):
            v = ir.Value(name=u["name"], shape=ir.Shape([2]), type=ir.TensorType(F))
            graphs[u["where"]].append((v, {"used": False, "as_input": False}))

    for i, e in enumerate(entries):
        add_uninit(i)
        if "share_with" in e:
            t, raw = tensors[e["share_with"]]
        else:
            t, raw = make_tensor(e, sandbox)
        tensors.append((t, raw))
        v = ir.Value(name=e["name"], shape=ir.Shape(e["shape"]), type=ir.TensorType(ir.DataType[e["dtype"]]),
                     const_value=t)
        graphs[e["where"]].append((v, e))
        expected[(e["where"], e["name"])] = raw
    add_uninit(len(entries))

    def ident_nodes(vals, prefix):
        nodes, outs = [], []
        for v, e in vals:
            if e.get("used"):
                n = ir.node("Identity", inputs=[v], name=f"{prefix}_id_{v.name}")
                n.outputs[0].name = f"{prefix}_o_{v.name}"
                n.outputs[0].type = v.type
                n.outputs[0].shape = v.shape
                nodes.append(n)
                outs.append(n.outputs[0])
        return nodes, outs

    x = ir.Value(name="x", shape=ir.Shape([2]), type=ir.TensorType(F))
    cond = ir.Value(name="cond", shape=ir.Shape([]), type=ir.TensorType(ir.DataType.BOOL))
    main_nodes, main_outs = ident_nodes(graphs["main"], "m")
    need_if = bool(graphs["then"] or graphs["else"])
    if need_if:
        def branch(tag):
            c = ir.node("Constant", inputs=[], attributes={"value": ir.tensor(np.array([1.0, 2.0], dtype=np.float32), name=f"{tag}_c")},
                        name=f"{tag}_const")
            c.outputs[0].name = f"{tag}_y"
            c.outputs[0].type = ir.TensorType(F)
            c.outputs[0].shape = ir.Shape([2])
            nodes, _ = ident_nodes(graphs[tag], tag)
            return ir.Graph([], [c.outputs[0]], nodes=[c, *nodes],
                            initializers=[v for v, _ in graphs[tag]], name=f"{tag}_branch")
        ifn = ir.node("If", inputs=[cond], attributes={"then_branch": branch("then"), "else_branch": branch("else")},
                      name="if_node")
        ifn.outputs[0].name = "if_out"
        ifn.outputs[0].type = ir.TensorType(F)
        ifn.outputs[0].shape = ir.Shape([2])
        main_nodes.append(ifn)
        main_outs.append(ifn.outputs[0])
    if graphs["loop"]:
        it = ir.Value(name="iter", shape=ir.Shape([]), type=ir.TensorType(ir.DataType.INT64))
        cin = ir.Value(name="cond_in", shape=ir.Shape([]), type=ir.TensorType(ir.DataType.BOOL))
        acc = ir.Value(name="acc_in", shape=ir.Shape([2]), type=ir.TensorType(F))
        c1 = ir.node("Identity", inputs=[cin], name="loop_cond_id")
        c1.outputs[0].name = "cond_out"
        c1.outputs[0].type = cin.type
        c1.outputs[0].shape = cin.shape
        a1 = ir.node("Identity", inputs=[acc], name="loop_acc_id")
        a1.outputs[0].name = "acc_out"
        a1.outputs[0].type = acc.type
        a1.outputs[0].shape = acc.shape
        lnodes, _ = ident_nodes(graphs["loop"], "loop")
        body = ir.Graph([it, cin, acc], [c1.outputs[0], a1.outputs[0]], nodes=[c1, a1, *lnodes],
                        initializers=[v for v, _ in graphs["loop"]], name="loop_body")
        trip = ir.node("Constant", inputs=[], attributes={"value": ir.tensor(np.array(2, dtype=np.int64), name="trip_c")},
                       name="trip_const")
        trip.outputs[0].name = "trip"
        ln = ir.node("Loop", inputs=[trip.outputs[0], cond, x], attributes={"body": body}, name="loop_node")
        ln.outputs[0].name = "loop_out"
        ln.outputs[0].type = ir.TensorType(F)
        ln.outputs[0].shape = ir.Shape([2])
        main_nodes += [trip, ln]
        main_outs.append(ln.outputs[0])
    if not main_outs:
        n = ir.node("Identity", inputs=[x], name="pass")
        n.outputs[0].name = "y"
        n.outputs[0].type = x.type
        n.outputs[0].shape = x.shape
        main_nodes.append(n)
        main_outs.append(n.outputs[0])
    inputs = [x, cond] + [v for v, e in graphs["main"] if e.get("as_input")]
    main_outs = main_outs + [v for v, e in graphs["main"] if e.get("as_output") and not e.get("as_input")]
    extras = recipe.get("extras") or {}
    if extras.get("big_const_attr"):
        # a Constant node whose tensor attribute is bigger than the externalisation threshold: attributes are not
        # initializers, must stay inline and untouched
        big = ir.node("Constant", inputs=[], attributes={"value": ir.tensor(np.arange(600, dtype=np.float32), name="big_attr")},
                      name="big_const")
        big.outputs[0].name = "big_const_out"
        big.outputs[0].type = ir.TensorType(F)
        big.outputs[0].shape = ir.Shape([600])
        main_nodes.append(big)
        main_outs = main_outs + [big.outputs[0]]
    g = ir.Graph(inputs, main_outs, nodes=main_nodes, initializers=[v for v, _ in graphs["main"]],
                 opset_imports={"": 21}, name="main_graph")
    model = ir.Model(g, ir_version=10, producer_name="dsim-c20", producer_version="1.2", domain="dsim.test", model_version=3)
    if extras.get("metadata"):
        model.metadata_props["author"] = "dsim"
        model.doc_string = "model doc"
        g.doc_string = "graph doc"
        g.metadata_props["stage"] = "exported"
        if main_nodes:
            main_nodes[0].metadata_props["namespace"] = "top/layer0"
            main_nodes[0].doc_string = "node doc"
    if extras.get("value_info"):
        for v, e in graphs["main"][:2]:
            v.metadata_props["note"] = "initializer value"
    if extras.get("function"):
        fx = ir.Value(name="fx", shape=ir.Shape([2]), type=ir.TensorType(F))
        fn_node = ir.node("Neg", inputs=[fx], name="fn_neg")
        fn_node.outputs[0].name = "fy"
        fgraph = ir.Graph([fx], [fn_node.outputs[0]], nodes=[fn_node], opset_imports={"": 21}, name="local_fn_graph")
        func = ir.Function("dsim.local", "LocalNeg", "", graph=fgraph, attributes=[])
        model.functions[func.identifier()] = func
        model.graph.opset_imports["dsim.local"] = 1
        call = ir.node("LocalNeg", inputs=[x], domain="dsim.local", name="call_local")
        call.outputs[0].name = "local_out"
        call.outputs[0].type = ir.TensorType(F)
        call.outputs[0].shape = ir.Shape([2])
        model.graph.append(call)
        model.graph.outputs.append(call.outputs[0])
    return model, expected
