"""C20 driver: seeded cases x enumerated fault plans, minimisation, evidence."""
from __future__ import annotations

import collections
import json
import logging
import os
import subprocess
import sys

from dsim import common
from dsim.common import EXIT_HARNESS, EXIT_OK, EXIT_VIOLATION, log, sha
from dsim.prng import Rng

PROP = "C20"
BLK = 4096

TIERS = {
    # cases, errnos per site, fsize sample, double-fault sample per case, determinism re-runs
    "quick": {"cases": 160, "all_errnos": False, "fsize_samples": 6, "fsize_all_below": 2048, "doubles": 3, "redo": 6, "budget_s": 900},
    "thorough": {"cases": 640, "all_errnos": True, "fsize_samples": 48, "fsize_all_below": 16384, "doubles": 10**9, "redo": 40, "budget_s": 9000},
}

OPEN_W_ERR = ["ENOSPC", "EACCES", "EMFILE", "ENOENT"]
OPEN_R_ERR = ["ENOENT", "EACCES", "EMFILE"]
DEFER_ERR = ["EIO", "ENOSPC", "EDQUOT"]


def _quiet_logging():
    lg = logging.getLogger("onnx_ir")
    lg.addHandler(logging.NullHandler())
    lg.propagate = False
    sys.dont_write_bytecode = True


# ------------------------------------------------------------------ fault plans

def single_faults(events: list[dict], rng: Rng, all_errnos: bool) -> list[dict]:
    """Every (k, kind) applicable to event k of the fault-free trace."""
    plans = []

    def errs(lst):
        return lst if all_errnos else [rng.choice(lst)]

    for ev in events:
        k, op = ev["i"], ev["op"]
        if op == "open":
            for e in errs(OPEN_W_ERR if any(c in ev.get("mode", "") for c in "wax+") else OPEN_R_ERR):
                plans.append({"at": {k: {"kind": "openfail", "op": "open", "errno": e}}})
        elif op == "write":
            plans.append({"at": {k: {"kind": "eio", "op": "write", "errno": "EIO"}}})
            n = ev.get("n", 0)
            for j in sorted({1, n // 2, n - 1} if n >= 2 else set()):
                if 0 < j < n:
                    plans.append({"at": {k: {"kind": "torn", "op": "write", "j": j, "errno": "ENOSPC"}}})
        elif op == "read":
            plans.append({"at": {k: {"kind": "eio", "op": "read", "errno": "EIO"}}})
            n = ev.get("n", -1)
            if n is not None and n > 1:
                for j in sorted({1, n // 2}):
                    plans.append({"at": {k: {"kind": "short", "op": "read", "j": j}}})
        elif op in ("tell", "seek", "fileno"):
            for e in errs(["EBADF", "ESPIPE"]):
                plans.append({"at": {k: {"kind": "callfail", "op": op, "errno": e}}})
        elif op in ("flush", "close"):
            for e in errs(DEFER_ERR):
                plans.append({"at": {k: {"kind": "deferred", "op": op, "errno": e}}})
        elif op == "mmap":
            plans.append({"at": {k: {"kind": "mmapfail", "op": "mmap", "errno": "ENOMEM"}}})
        elif op.startswith("os."):
            for e in errs(["EACCES", "ENOSPC", "ENOENT"]):
                plans.append({"at": {k: {"kind": "callfail", "op": op, "errno": e}}})
        elif op in ("err.write", "err.flush"):
            plans.append({"at": {k: {"kind": "streamfail", "op": op, "errno": "EPIPE"}}})
    return plans


def fsize_limits(ref: dict, layout: list[tuple[int, int]], rng: Rng, tier: dict, model_bytes: int = 0) -> list[int]:
    """Disk-capacity values to try: tensor boundaries +-1, 4 KiB boundaries +-1, file ends, seeded sample."""
    sizes = [s for n, s in ref.get("sizes", {}).items() if not n.startswith(("src", "sub/", "second/", "decoy/"))]
    if not sizes:
        return []
    top = max(sizes)
    if top == 0:
        return []
    cand = {0, 1}
    if top <= tier["fsize_all_below"]:
        cand.update(range(0, top))
    for off, ln in layout:
        for b in (off - 1, off, off + 1, off + ln - 1, off + ln, off + ln + 1, off + ln - (ln % BLK), off + ln - (ln % BLK) - 1,
                  off + ln - (ln % BLK) + 1):
            cand.add(b)
    for s in sizes:
        cand.update((s - 1, s - 2, s // 2))
        b = BLK
        while b < s and len(cand) < 400:
            cand.update((b - 1, b, b + 1))
            b += BLK * max(1, s // (BLK * 8))
    for _ in range(tier["fsize_samples"]):
        cand.add(rng.below(top))
    out = sorted(b for b in cand if 0 <= b < top)
    # every capacity value is one more simulated save of the whole model: for models with large tensors (each save costs
    # 0.2-0.5 s) the every-byte enumeration of a small data file is thinned to an even sample, or one case alone takes an hour
    cap = 512 if model_bytes > 200_000 else 6000
    if len(out) > cap:
        step = -(-len(out) // cap)
        out = sorted(set(out[::step]) | {b for b in out if b <= 8 or b >= top - 8})
    return out


def data_layout(real_events: list[dict], recipe: dict) -> list[tuple[int, int]]:
    # (offset, length) of tensors in the data file is recomputed from the recipe sizes the way
    # the writer sorts them; only used to choose interesting capacity values, never by an oracle
    from dsim.c20 import models

    lens = []
    seen = set()
    for i, e in enumerate(recipe["inits"]):
        if "share_with" in e:
            e = recipe["inits"][e["share_with"]]
        if e["dtype"] == "STRING":
            continue
        bits = models._itemsize_bits(e["dtype"])
        n = 1
        for d in e["shape"]:
            n *= d
        nb = (n * bits + 7) // 8
        if nb > 256:
            lens.append(nb)
    lens.sort()
    out, off = [], 0
    for ln in lens:
        if ln >= 1048576:
            off = (off + 65535) // 65536 * 65536
        out.append((off, ln))
        off += ln
    return out


# ------------------------------------------------------------------ signature / findings

def signature(recipe: dict, plan: dict | None, rec: dict, viol: dict) -> dict:
    cfg = recipe.get("cfg", {})
    sig = {"class": viol["class"], "backend": cfg.get("backend", "fd")}
    if plan and plan.get("fsize") is not None:
        sig["fault"] = "fsize"
    elif plan and plan.get("at"):
        at = {int(k): v for k, v in plan["at"].items()}
        sig["fault"] = "+".join(at[k]["kind"] for k in sorted(at))
        sig["op"] = "+".join(f["op"] for f in rec.get("fired", []))
    else:
        sig["fault"] = "none"
    if "readers" in viol:
        sig["readers"] = "+".join(viol["readers"])
    if "dtypes" in viol:
        sig["dtypes"] = "+".join(viol["dtypes"])
    if viol["class"] in ("no-refusal", "wrote-before-refusing"):
        sig["uninit_where"] = "+".join(sorted({"main" if u["where"] == "main" else "subgraph" for u in recipe.get("uninit", [])}))
    if viol.get("meta_lost_only"):
        sig["meta_lost_only"] = True
    if "dtypes" in viol and viol["dtypes"] and set(viol["dtypes"]) <= {"INT2", "UINT2"}:
        sig["only_2bit"] = True
    if sig["fault"] == "fsize" and viol["class"] == "success-but-bad-roundtrip":
        # who wrote the damaged tensors, and is the damage confined to what C stdio still had buffered
        kinds = {}
        for e in recipe["inits"]:
            src = recipe["inits"][e["share_with"]] if "share_with" in e else e
            kinds[f"{e['where']}:{e['name']}"] = src["kind"]   # initializer names are unique per graph only
        damaged = viol.get("raw_damaged", [])
        via_tofile = cfg.get("backend", "fd") == "fd" and damaged and all(kinds.get(n) in ("np", "np_view", "lazy", "packed") for n in damaged)
        # (torch / proto / bytesonly / ext tensors reach the file through Python-level write(): never silent)
        sig["writer"] = "numpy.tofile" if via_tofile else "python.write"
        sig["damage"] = ("final-partial-stdio-block" if viol.get("raw_confined") and damaged else
                         "final-full-stdio-block" if viol.get("raw_confined_full") and damaged else "other")
    return sig


# ------------------------------------------------------------------ one case (runs in a worker)

def run_case(args) -> dict:
    seed, idx, tier_name, root = args
    from dsim.c20 import engine, models

    _quiet_logging()
    tier = TIERS[tier_name]
    rng = Rng(seed).sub("case", idx)
    recipe = models.gen_recipe(rng.sub("recipe"), tier_name, idx)
    # simulated clock plan for tqdm (clock jumps included); fixed by the spec
    crng = rng.sub("clock")
    recipe["cfg"]["clock"] = [crng.choice([0.0, 0.001, 0.05, 0.2, 2.0, 15.0]) for _ in range(7)]
    recipe["cfg"]["ext_preloaded"] = rng.sub("pre").chance(0.5)
    recipe["cfg"]["decoy_first"] = rng.sub("decoy").chance(0.5)
    return _in_child(explore, recipe, rng.sub("faults"), tier, root, idx)


def _in_child(fn, *args):
    """Run one case in a forked child of the worker: every case starts from the same pristine post-import process, so a
    result never depends on which cases the worker happened to run before (and a replay in a fresh process is faithful).
    State carried from one save to the next *different* model is exercised deliberately instead (cfg.decoy_first)."""
    import pickle

    r, w = os.pipe()
    pid = os.fork()
    if pid == 0:
        try:
            os.close(r)
            try:
                payload = pickle.dumps(("ok", fn(*args)))
            except BaseException as e:  # noqa: BLE001
                import traceback

                payload = pickle.dumps(("err", f"{type(e).__name__}: {e}\n{traceback.format_exc()[-1500:]}"))
            mv = memoryview(payload)
            while mv:
                mv = mv[os.write(w, mv):]
        finally:
            os._exit(0)
    os.close(w)
    chunks = []
    while True:
        b = os.read(r, 1 << 20)
        if not b:
            break
        chunks.append(b)
    os.close(r)
    os.waitpid(pid, 0)
    if not chunks:
        raise common.HarnessError("case child died without a result")
    kind, val = pickle.loads(b"".join(chunks))
    if kind == "err":
        raise common.HarnessError(val)
    return val


def explore(recipe: dict, frng: Rng, tier: dict, root: str, idx: int, only_kinds: set | None = None,
            stop_on: str | None = None) -> dict:
    from dsim.c20 import engine

    out = {"idx": idx, "recipe": recipe, "saves": 0, "viol": [], "fault_stats": collections.Counter(),
           "outcomes": collections.Counter(), "nontrivial": set(), "shapes": set(), "probes": collections.Counter(),
           "digests": [], "harness": []}

    def record(plan, rec):
        out["saves"] += 1 + (1 if "retry" in rec else 0) + (1 if "second_save" in rec else 0) + (1 if "resave" in rec else 0) + (1 if "edited_save" in rec else 0)
        if "edited_save" in rec:
            out["probes"][f"edited_then_saved_again:{rec.get('edit')}:{rec['edited_save'].split()[0]}"] += 1
        out["digests"].append(engine.digest(rec))
        out["outcomes"][rec["outcome"] if not recipe.get("uninit") else "refused" if rec["outcome"] == "raised" else "returned"] += 1
        for v in rec["violations"]:
            out["viol"].append({"plan": plan, "viol": v, "sig": signature(recipe, plan, rec, v)})
        if rec.get("missed"):
            out["harness"].append({"plan": plan, "missed": rec["missed"]})

    ref = engine.run_save(recipe, None, root)
    record(None, ref)
    out["shapes"].add(sha(ref["shape"].encode()))
    out["n_events"] = len(ref["events"])
    ops = collections.Counter(e["op"] for e in ref["events"])
    if ref["stderr_writes"]:
        out["probes"]["tqdm_progress_written"] += 1
    if any(e["op"] == "open" and e["f"].startswith(("src", "sub/")) and "r" in e.get("mode", "") for e in ref["events"]):
        out["probes"]["external_source_read"] += 1
    if ops["mmap"]:
        out["probes"]["external_source_mmapped"] += 1
    lay = data_layout(ref["events"], recipe)
    if any(b[0] > a[0] + a[1] for a, b in zip(lay, lay[1:])):
        out["probes"]["alignment_padding_path"] += 1
    if recipe.get("uninit"):
        out["probes"]["refusal_case"] += 1
    if ref["violations"] and stop_on is None and only_kinds is None:
        # the fault-free run is already wrong; faults on top add nothing
        out["exhaustive"] = True
        return _pack(out)

    plans = single_faults(ref["events"], frng.sub("errno"), tier["all_errnos"])
    if recipe.get("uninit") and not ref["events"]:
        lay = []  # refused before the first fs event: there is no fault point to enumerate
        ref = dict(ref, sizes={})
    from dsim.c20 import models as _models

    model_bytes = sum(_models._itemsize_bits(e["dtype"]) * max(1, __import__("math").prod(e["shape"])) // 8
                      for e in recipe["inits"] if e["dtype"] != "STRING")
    for b in fsize_limits(ref, lay, frng.sub("fsize"), tier, model_bytes):
        plans.append({"fsize": b})
    if only_kinds is not None:
        plans = [p for p in plans if _plan_kind(p) in only_kinds]
    doubles_left = tier["doubles"]
    drng = frng.sub("doubles")
    for plan in plans:
        rec = engine.run_save(recipe, plan, root)
        record(plan, rec)
        kind = _plan_kind(plan)
        out["fault_stats"][kind + ":configured"] += 1
        fired = bool(rec["fired"]) or "fsize" in plan
        if fired:
            out["fault_stats"][kind + ":fired"] += 1
            out["fault_stats"][kind + (":absorbed" if rec["outcome"] == "returned" else ":raised")] += 1
            k = rec["fired"][0]["i"] if rec["fired"] else len(rec["events"])
            prefix = " ".join(f"{e['op']}:{e['f']}" for e in rec["events"][:k])
            progressed = any(e["op"] in ("write", "fileno", "read") for e in rec["events"][:k]) or ("fsize" in plan and plan["fsize"] > 0)
            if progressed:
                out["nontrivial"].add(sha(f"{prefix}|{kind}|{_plan_param_class(plan)}".encode()))
            if rec["fired"] and rec["fired"][0]["op"] == "fileno" and rec["outcome"] == "returned":
                out["probes"]["fileno_fault_absorbed"] += 1
            if kind == "short" and rec["outcome"] == "returned":
                out["probes"]["short_read_absorbed"] += 1
        if stop_on and any(v["class"] == stop_on for v in rec["violations"]):
            out["hit"] = {"plan": plan, "rec_viol": rec["violations"]}
            return _pack(out)
        # fault during recovery: a second fault on an event that only exists after the first fired
        if rec["fired"] and "at" in plan and only_kinds is None:
            k0 = rec["fired"][0]["i"]
            later = [e for e in rec["events"] if e["i"] > k0 and (e["op"] in ("close", "flush", "write", "err.write", "err.flush")
                                                                    or e["op"].startswith("os."))]
            later.sort(key=lambda e: (not e["op"].startswith("os."), e["i"]))   # clean-up calls (unlink / replace) first
            for e in later[:3]:
                if doubles_left <= 0:
                    break
                if tier["doubles"] < 10**8 and not e["op"].startswith("os.") and not drng.chance(0.15):
                    continue
                doubles_left -= 1
                f2 = {"kind": "deferred" if e["op"] in ("close", "flush") else "eio" if e["op"] == "write"
                      else "callfail" if e["op"].startswith("os.") else "streamfail",
                      "op": e["op"], "errno": "EACCES" if e["op"].startswith("os.") else "EIO" if not e["op"].startswith("err") else "EPIPE"}
                p2 = {"at": {**plan["at"], e["i"]: f2}}
                rec2 = engine.run_save(recipe, p2, root)
                record(p2, rec2)
                out["fault_stats"]["double:configured"] += 1
                if len(rec2["fired"]) == 2:
                    out["fault_stats"]["double:fired"] += 1
                    prefix = " ".join(f"{x['op']}:{x['f']}" for x in rec2["events"][:e["i"]])
                    out["nontrivial"].add(sha(f"{prefix}|double|{kind}+{f2['kind']}".encode()))
    out["exhaustive"] = only_kinds is None
    return _pack(out)


def _plan_kind(plan: dict) -> str:
    if "fsize" in plan:
        return "fsize"
    ks = sorted(plan["at"], key=int)
    f = plan["at"][ks[0]]
    return f["kind"] + "@" + f["op"] if len(ks) == 1 else "double"


def _plan_param_class(plan: dict) -> str:
    if "fsize" in plan:
        return "b"
    f = plan["at"][sorted(plan["at"], key=int)[0]]
    return f"{f.get('errno')}/{'j' if 'j' in f else ''}"


def _pack(out: dict) -> dict:
    out["fault_stats"] = dict(out["fault_stats"])
    out["outcomes"] = dict(out["outcomes"])
    out["probes"] = dict(out["probes"])
    out["nontrivial"] = sorted(out["nontrivial"])
    out["shapes"] = sorted(out["shapes"])
    out["digest"] = sha("".join(out["digests"]).encode())
    del out["digests"]
    return out


# ------------------------------------------------------------------ minimiser

def minimise(recipe: dict, plan: dict | None, cls: str, root: str, budget: int = 40):
    """Shrink (recipe, plan) while a violation of class `cls` persists under some plan of the same kind."""
    from dsim.c20 import engine
    import copy

    kind = None if plan is None else _plan_kind(plan)
    tier = dict(TIERS["quick"], doubles=0)
    calls = [0]

    def still(r):
        """Returns a failing plan for recipe r (or False)."""
        calls[0] += 1
        if plan is None:
            rec = engine.run_save(r, None, root)
            return (None, rec) if any(v["class"] == cls for v in rec["violations"]) else False
        if kind == "double":
            return False
        res = explore(r, Rng(1), tier, root, -1, only_kinds={kind}, stop_on=cls)
        if "hit" in res:
            return (res["hit"]["plan"], None)
        return False

    best_r, best_p = copy.deepcopy(recipe), plan
    if kind == "double":
        return best_r, best_p
    changed = True
    while changed and calls[0] < budget:
        changed = False
        # drop initializers one at a time (sharing links make ddmin chunks awkward; lists are short)
        i = len(best_r["inits"]) - 1
        while i >= 0 and calls[0] < budget:
            cand = copy.deepcopy(best_r)
            if any(e.get("share_with") == i for e in cand["inits"]):
                i -= 1
                continue
            del cand["inits"][i]
            for e in cand["inits"]:
                if e.get("share_with", -1) > i:
                    e["share_with"] -= 1
            for u in cand["uninit"]:
                u["pos"] = min(u["pos"], len(cand["inits"]))
            r = still(cand)
            if r:
                best_r, best_p, changed = cand, r[0], True
            i -= 1
        for j in range(len(best_r["uninit"]) - 1, -1, -1):
            if calls[0] >= budget:
                break
            cand = copy.deepcopy(best_r)
            del cand["uninit"][j]
            r = still(cand)
            if r:
                best_r, best_p, changed = cand, r[0], True
        simple = {"verbose": False, "preexisting": "none", "path_form": "abs", "path_type": "str", "decoy_first": False,
                  "file_name": "model.onnx", "backend": "fd", "ext_preloaded": False, "clock": [0.0]}
        for k, v in simple.items():
            if calls[0] >= budget:
                break
            if best_r["cfg"].get(k) != v:
                cand = copy.deepcopy(best_r)
                cand["cfg"][k] = v
                r = still(cand)
                if r:
                    best_r, best_p, changed = cand, r[0], True
        for i, e in enumerate(best_r["inits"]):
            if calls[0] >= budget:
                break
            for k, v in (("kind", "np"), ("where", "main"), ("dtype", "UINT8"), ("used", False), ("as_input", False)):
                if e.get(k) != v and "share_with" not in e and not (k == "kind" and e.get("kind") == "ext" and False):
                    cand = copy.deepcopy(best_r)
                    cand["inits"][i][k] = v
                    if k == "kind":
                        cand["inits"][i].pop("ext_file", None)
                    try:
                        r = still(cand)
                    except Exception:  # noqa: BLE001 - an unrealisable shrink candidate is just rejected
                        r = False
                    if r:
                        best_r, best_p, changed = cand, r[0], True
    return best_r, best_p


# ------------------------------------------------------------------ check / replay

def replay_doc(doc: dict, root: str) -> tuple[bool, dict]:
    from dsim.c20 import engine

    _quiet_logging()
    rec = engine.run_save(doc["recipe"], doc.get("plan"), root)
    want = doc["expect"]["class"]
    return any(v["class"] == want for v in rec["violations"]), rec


def replay(path: str) -> int:
    doc = json.load(open(path))
    root = common.scratch_root()
    try:
        hit, rec = replay_doc(doc, root)
    finally:
        common.rmtree(root)
    log(f"replay {path}: outcome={rec['outcome']} exc={rec['exc']} fired={rec['fired']} violations={rec['violations']}")
    if hit:
        log(f"VIOLATION property={PROP} replay={path}")
        return EXIT_VIOLATION
    log("replay did not reproduce the recorded violation class")
    return EXIT_OK


def check(tier_name: str, seed: int, max_cases: int | None = None) -> int:
    sw = common.Stopwatch()
    tier = TIERS[tier_name]
    _quiet_logging()
    # import once in the parent so forked workers share the loaded modules
    import onnx_ir  # noqa: F401
    import torch  # noqa: F401  (TorchTensor-backed initializers; imported once, workers are forked)
    import tqdm  # noqa: F401
    from onnxscript._framework_apis import torch_2_5  # noqa: F401

    ncases = max_cases or int(os.environ.get("VERIF_C20_CASES", tier["cases"]))
    root = common.scratch_root()
    findings = common.load_findings()
    results, harness_errors = [], []
    planned = list(range(ncases))
    executed = 0
    try:
        with common.pool(common.default_workers(), hang_s=tier["budget_s"] + 600) as ex:
            futs = {i: ex.submit(run_case, (seed, i, tier_name, root)) for i in planned}
            for i in planned:
                try:
                    remaining = max(5.0, tier["budget_s"] + 300 - sw.elapsed())
                    results.append(futs[i].result(timeout=remaining))
                    executed += 1
                except Exception as e:  # noqa: BLE001
                    harness_errors.append(f"case {i}: {type(e).__name__}: {str(e)[:300]}")
            # determinism self-check: re-execute a sample of cases, digests must match
            rr = Rng(seed).sub("redo")
            redo = rr.sample(planned, min(tier["redo"], len(planned)))
            redo_f = {i: ex.submit(run_case, (seed, i, tier_name, root)) for i in redo}
            by_idx = {r["idx"]: r for r in results}
            redo_diff = 0
            for i, f in redo_f.items():
                try:
                    r2 = f.result(timeout=600)
                    if i in by_idx and r2["digest"] != by_idx[i]["digest"]:
                        redo_diff += 1
                        harness_errors.append(f"determinism: case {i} digest differs between two executions")
                except Exception as e:  # noqa: BLE001
                    harness_errors.append(f"redo case {i}: {type(e).__name__}: {str(e)[:200]}")

        # ---- triage violations
        known_hits = collections.Counter()
        new_viol = []
        for r in results:
            for h in r["harness"]:
                harness_errors.append(f"case {r['idx']}: planned fault missed its event: {h}")
            for v in r["viol"]:
                f = next((f for f in findings if f.matches(PROP, v["sig"])), None)
                if f is not None:
                    known_hits[f.text] += 1
                else:
                    new_viol.append((r, v))
        reported = []
        seen_sigs = set()
        for r, v in new_viol:
            key = common.jdump(v["sig"])
            if key in seen_sigs:
                continue
            seen_sigs.add(key)
            if len(reported) >= 5:
                continue
            mr, mp = minimise(r["recipe"], v["plan"], v["viol"]["class"], root)
            doc = {"property": PROP, "kit": common.KIT_VERSION, "seed": seed, "case": r["idx"], "recipe": mr, "plan": mp,
                   "expect": {"class": v["viol"]["class"], "signature": v["sig"], "detail": v["viol"].get("detail")},
                   "original": {"n_inits": len(r["recipe"]["inits"]), "plan": v["plan"]}}
            path = common.write_replay(PROP, f"{seed}-{r['idx']}-{v['viol']['class']}-{sha(key.encode())[:6]}", doc)
            # the replay must reproduce in a brand-new process
            p = subprocess.run([sys.executable, "-m", "dsim", "replay", path], cwd=common.VERIF, capture_output=True,
                               text=True, timeout=300)
            if f"VIOLATION property={PROP}" in p.stdout:
                reported.append((path, v))
            else:
                harness_errors.append(f"violation {v['sig']} did not reproduce from {path}: {p.stdout[-300:]} {p.stderr[-300:]}")
    finally:
        common.rmtree(root)

    # ---- evidence
    agg_stats, agg_out, agg_probe = collections.Counter(), collections.Counter(), collections.Counter()
    nontrivial, shapes = set(), set()
    saves = 0
    exhaustive_cases = 0
    for r in results:
        agg_stats.update(r["fault_stats"])
        agg_out.update(r["outcomes"])
        agg_probe.update(r["probes"])
        nontrivial.update(r["nontrivial"])
        shapes.update(r["shapes"])
        saves += r["saves"]
        exhaustive_cases += 1 if r.get("exhaustive") else 0
    samples = []
    for r in results[:3]:
        samples.append({"case": r["idx"], "recipe": r["recipe"], "fs_events_fault_free": r.get("n_events"),
                        "saves": r["saves"], "fault_stats": r["fault_stats"]})
    wall = sw.elapsed()
    coverage = {
        "evaluations": saves,
        "distinct_nontrivial": len(nontrivial),
        "rule": "A case = seeded (model recipe, call configuration). For each case every single fault (k, kind) applicable to event k of its "
                "fault-free fs-event trace is executed as its own simulated save, plus disk-capacity limits at tensor/4KiB/file boundaries "
                "and a seeded sample, plus seeded second faults on events that only exist during error unwinding. evaluations counts simulated "
                "saves (fault-free, faulted, the fault-free retry after a failed save, the second and third saves of the same model and the save "
                "after the caller edited the model). distinct_nontrivial counts distinct "
                "(fs-event prefix up to the fault, fault kind, parameter class) in which the fault actually fired after the save had made "
                "progress (at least one write/read/fileno event, or a non-zero capacity).",
        "samples": samples,
        "exhaustive": False,
        "cases_planned": ncases, "cases_executed": executed, "cases_with_all_single_faults_enumerated": exhaustive_cases,
        "distinct_fs_trace_shapes": len(shapes),
        "fault_stats": dict(sorted(agg_stats.items())),
        "outcomes": dict(agg_out),
        "probes_hit": dict(agg_probe),
        "runs_per_hour": int(saves / wall * 3600) if wall > 0 else 0,
        "seeds": 1, "cases_per_hour": int(executed / wall * 3600) if wall > 0 else 0,
        "simulated_time": "n/a: the code under test has no timers; tqdm's clock is simulated (planned steps incl. 15 s jumps)",
        "determinism_redo": {"cases": min(tier["redo"], ncases), "diffs": redo_diff},
        "known_findings_hit": dict(known_hits),
        "harness_errors": harness_errors[:10],
        "real_vs_stub": {"real": ["onnxscript torch_2_5.save_model_with_external_data", "onnx_ir save/external_data/tensors", "onnx.save",
                                  "protobuf", "numpy tofile", "tqdm", "kernel file system (tmpfs) behind the proxies"],
                         "simulated": ["open()/file objects (fault proxy)", "mmap seam", "sys.stderr", "tqdm clock", "disk capacity (RLIMIT_FSIZE)"]},
    }
    assumptions = [
        "RLIMIT_FSIZE+ignored SIGXFSZ (EFBIG) stands in for ENOSPC in C-level writes",
        "no input tensor is backed by one of the two destination files (upstream documents invalidation in that case)",
        "onnx_ir logger silenced by the harness; tqdm monitor thread disabled (monitor_interval=0) so nothing unscheduled runs",
        "tensor.name is not model state (serialisation syncs it to the initializer name)",
    ]
    common.write_evidence(PROP, tier_name, seed, "fault_enumeration", coverage, assumptions, wall, len(reported))

    run_digest = sha("".join(f"{r['idx']}:{r['digest']};" for r in sorted(results, key=lambda r: r["idx"])).encode())
    log(f"RUN-DIGEST {PROP} {run_digest}")
    for text, n in sorted(known_hits.items()):
        log(f"KNOWN-FINDING: property={PROP} {text} [{n} occurrences this run]")
    log(f"C20 {tier_name}: seed={seed} cases={executed}/{ncases} saves={saves} distinct_nontrivial={len(nontrivial)} "
        f"shapes={len(shapes)} wall={wall:.1f}s outcomes={dict(agg_out)}")
    if harness_errors:
        for h in harness_errors[:10]:
            log("HARNESS-ERROR:", h)
    for path, v in reported:
        log(f"  violation: {v['sig']} {v['viol'].get('detail')}")
        log(f"VIOLATION property={PROP} replay={path}")
    if reported:
        return EXIT_VIOLATION
    if harness_errors:
        return EXIT_HARNESS
    return EXIT_OK
