#!/usr/bin/env python3
"""Regenerates MANIFEST.json from one place so it stays schema-valid."""
import json, sys
PY = "/venv/bin/python"
NA = {
 "C01": "Compilation and eager evaluation are synchronous pure functions of (source, inputs); no schedule, clock, I/O or fault in the statement. Its one environmental facet (hash-ordered set iteration in the converter) is decided under C14.",
 "C02": "Well-formedness of emitted protos is a structural function of the program; nothing for a simulator to schedule or fault.",
 "C03": "optimize() is a single-threaded in-place graph walk; semantic preservation quantifies over programs x inputs only. Cross-call state leakage is the C14 facet.",
 "C04": "Totality/validity of optimize() is a function of (model, options); no concurrency, time or I/O involved.",
 "C05": "Rule soundness quantifies over (rule, model, inputs): pure. Stashed per-match state on rule singletons is covered as history dependence by C14.",
 "C06": "Matcher soundness/completeness is a pure function of (pattern, graph); backtracking state lives in one MatchResult per call.",
 "C07": "Splice correctness is a pure function of (rule, model); no interleaving or fault in the statement.",
 "C08": "Numerical agreement with PyTorch is over inputs/programs; PyTorch/ORT internal thread pools are not schedulable from Python and not quantified over.",
 "C09": "Shape-based simplification soundness quantifies over symbolic-dim bindings: input enumeration, not simulation.",
 "C10": "Version conversion is a synchronous walk plus an in-process C-API fallback (no temp files); 'never half-converted' failures are triggered deterministically by the program, so enumerating them is enumerating programs.",
 "C11": "Indexing semantics vs NumPy is a pure function of (program, input).",
 "C12": "Literal promotion is a pure, finite comparison across three front ends: enumeration, not simulation.",
 "C13": "proto2python round trip is a pure function of the model and options.",
 "C15": "Proto-vs-IR API equivalence and serde round trip are functions of the model; external-data references are carried, never opened.",
 "C16": "Schema binding over a finite registry filled once at import in fixed order: enumeration, not simulation.",
 "C17": "Generated opset classes vs ONNX schemas: finite exhaustive comparison, no nondeterminism.",
 "C18": "A GraphBuilder is driven by one caller with no interleaving and no faults in the statement (successful traces only).",
 "C19": "Numerical equivalence of ORT fusions is over shapes/dtypes/inputs; ORT's threads cannot be scheduled from here and are not quantified over.",
}
def checks():
    out = []
    import os
    here = os.path.dirname(os.path.abspath(__file__))
    if os.path.exists(os.path.join(here, "dsim", "c20", "driver.py")):
        out.append({
         "property_id": "C20",
         "quick_cmd": f"cd /verif && {PY} -m dsim check C20 --tier quick",
         "thorough_cmd": f"cd /verif && {PY} -m dsim check C20 --tier thorough",
         "replay_cmd_template": f"cd /verif && {PY} -m dsim replay {{path}}",
         "evidence_file": "/verif/evidence/C20.json",
         "engine": "fssim",
         "technique": "deterministic simulation with fault injection: the save runs against a simulated disk (interposed open/mmap/file proxies incl. torn and deferred-lost writes, RLIMIT_FSIZE disk-capacity seam, simulated progress stream and clock); for each seeded (model, call configuration) case every single fault point of its file-system event stream is enumerated, second faults are placed on the events that exist only during error unwinding; invariants (model untouched, round trip by two readers, refusal before any write, retry recovers, second and repeated saves, a save after the caller edited the model) checked after every simulated save; failures minimised to a replay file that must reproduce in a fresh process",
         "level_claimed": {"category": "fault_enumeration", "design_ref": "DESIGN.md section 4",
           "text": "For each seeded (model, call configuration) case the complete set of single faults over the save's file-system event stream is enumerated (exhaustive per case), plus seeded double faults; model-unchanged, round-trip, refusal-before-write and retry-recovers invariants are checked after every simulated save. Cases themselves are sampled, so this is evidence over a seeded family of models, not a proof."},
         "level_note": "Trusts CPython, the kernel's RLIMIT_FSIZE semantics as a stand-in for ENOSPC, and the check's own readers (onnx_ir.load, onnx.load) used as round-trip oracles. Code under test and all libraries (onnx_ir, onnx, numpy, tqdm) run for real; only the disk, stderr and tqdm's clock are simulated.",
        })
    if os.path.exists(os.path.join(here, "dsim", "c14", "driver.py")):
        out.append({
         "property_id": "C14",
         "quick_cmd": f"cd /verif && {PY} -m dsim check C14 --tier quick",
         "thorough_cmd": f"cd /verif && {PY} -m dsim check C14 --tier thorough",
         "replay_cmd_template": f"cd /verif && {PY} -m dsim replay {{path}}",
         "evidence_file": "/verif/evidence/C14.json",
         "engine": "procsim",
         "technique": "deterministic simulation with fault injection: each run is a simulated long-lived process (env -i, ASLR off via setarch -R, seeded PYTHONHASHSEED, heap skew before imports and between operations, GC pacing, private scratch directory) executing a seeded history of translate/optimize/rewrite/convert operations on shared long-lived decorator/pass/rule-set objects, with callee exceptions of eleven classes injected at traced call boundaries (aimed at the window after a node replacement, or uniform); every non-faulted operation's serialized result is compared byte-for-byte with the same operation alone in pristine processes under 4-8 (hash seed, heap layout) environments; failures are ddmin-minimised and replayed exactly (including the reference processes)",
         "level_claimed": {"category": "exploration", "design_ref": "DESIGN.md section 3",
           "text": "Seeded search over (process environment x operation history x fault plan); differential oracle against pristine single-operation processes under several hash seeds. Sampling, not enumeration: a clean batch is evidence that no seed/history/fault dependence exists in the explored pools."},
         "level_note": "Trusts CPython, setarch -R address pinning, and that BLAS/OMP are single-threaded as pinned. Everything in the simulated processes is real code (onnxscript from /repo's working tree, onnx_ir, onnx, numpy).",
        })
    return out
m = {
 "version": 1,
 "setup_cmd": f"cd /verif && {PY} -m dsim setup",
 "hooks": {"guard": "ONNXSCRIPT_VERIF", "enable": "no hooks were needed: every seam (hash seed, address space, file system, stderr, clock, rlimit, call-boundary faults) is interposed from outside the repository; checks import /repo's working tree through the editable install of /venv",
           "baseline_off_cmd": "cd /repo && /venv/bin/python -m pytest -ra -q -p no:cacheprovider --timeout=900 --continue-on-collection-errors",
           "source_commits": [], "add_only": True},
 "engines": [
  {"name": "fssim", "path": "dsim/c20", "serves_properties": ["C20"], "kind_free_text": "simulated disk + fault enumeration over the save's fs-event stream"},
  {"name": "procsim", "path": "dsim/c14", "serves_properties": ["C14"], "kind_free_text": "simulated long-lived processes: seeded environments, histories and injected failures, differential against pristine processes"},
 ],
 "checks": checks(),
 "notes": "Technique family: deterministic simulation with fault injection. 18 of 20 properties are pure functions of their input and are listed under not_applicable (DESIGN.md section 5).",
 "not_applicable": [{"property_id": k, "reason": v} for k, v in sorted(NA.items())],
}
claimed = {c["property_id"] for c in m["checks"]}
for pid in ("C14", "C20"):
    if pid not in claimed:
        m["not_applicable"].append({"property_id": pid, "reason": "check under construction in this commit (engine not yet committed); will be claimed, see DESIGN.md"})
m["not_applicable"].sort(key=lambda d: d["property_id"])
json.dump(m, open("/verif/MANIFEST.json", "w"), indent=1)
print("checks:", sorted(claimed))
